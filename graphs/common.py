"""Helpers for the graph / API properties C15-C19: deterministic-hash jobs, reference algorithms
(written from the documentation, independent of the package's code)."""
import io
import itertools
import sys

from asynciojobs import AbstractJob, PureScheduler, Scheduler, Sequence    # noqa

PERMS = {n: list(itertools.permutations(range(n))) for n in range(0, 7)}


class GJob(AbstractJob):
    """a job that is never run; hash = position in the chosen iteration order"""

    def __init__(self, name, vh, **kw):
        self.name = name
        self._vh = vh
        AbstractJob.__init__(self, label=name, **kw)

    def __hash__(self):
        return self._vh

    def __repr__(self):
        return self.name


class GSched(Scheduler):
    def __init__(self, name, vh, *jobs, **kw):
        self.name = name
        self._vh = vh
        Scheduler.__init__(self, *jobs, label=name, **kw)

    def __hash__(self):
        return self._vh

    def __repr__(self):
        return self.name


class GPure(PureScheduler):
    def __repr__(self):
        return "pure"


def pick_perm(api, name, n, mode):
    if mode == "free":
        return PERMS[n][api.choice(name, len(PERMS[n]))]
    if mode == "two" and n > 1:
        return PERMS[n][0] if api.choice(name, 2) == 0 else PERMS[n][-1]
    return PERMS[n][0]


def make_jobs(api, n, perm_mode="id", tag=""):
    pi = pick_perm(api, "pi" + tag, n, perm_mode)
    return [GJob("j%d%s" % (i, tag), pi[i]) for i in range(n)]


# ------------------------------------------------------------------ reference algorithms
def ref_acyclic(nodes, req):
    """Kahn: req[x] = set of nodes x requires (within nodes)"""
    indeg = {x: len([r for r in req[x] if r in nodes]) for x in nodes}
    left = set(nodes)
    progress = True
    while progress:
        progress = False
        for x in sorted(left, key=lambda z: str(z)):
            if all(r not in left for r in req[x] if r in nodes):
                left.discard(x)
                progress = True
    return not left


def ref_closure(nodes, req):
    """up[x] = all nodes reachable from x through one or more 'requires' links, restricted to nodes"""
    up = {x: set(r for r in req[x] if r in nodes) for x in nodes}
    changed = True
    while changed:
        changed = False
        for x in nodes:
            new = set(up[x])
            for y in up[x]:
                new |= up[y]
            if new != up[x]:
                up[x] = new
                changed = True
    return up


def capture(fn, *a, **k):
    saved = sys.stdout
    out = io.StringIO()
    sys.stdout = out
    try:
        r = fn(*a, **k)
    finally:
        sys.stdout = saved
    return r, out.getvalue()


def snapshot_required(jobs):
    return {j: set(j.required) for j in jobs}
