"""Cross-validation of engine A (symx) by engine B (CrossHair) on a reduced scenario: the same scenario builder,
virtual-time loop and oracles are executed under CrossHair's own symbolic ints/bools; CrossHair must report
'Confirmed over all paths' (or the same counterexample class as symx).  The number of harness executions is
reported next to symx's path count (CrossHair splits inside its own proxies and replaces `set`, so a different
count is a note, not a failure).

usage: python -m xcheck.ch_engine <per_condition_timeout>      (prints one JSON line)
"""
import json
import sys
import time

# CrossHair must be imported before the clock stub is installed: it registers its own replacement for whatever
# object time.time is at that moment, and the stub must not be that object
from crosshair.core_and_libs import analyze_function, run_checkables      # noqa
from crosshair.options import AnalysisOptionSet, AnalysisKind               # noqa

from env.scenario import Profile, build, execute
from symx.core import ConcreteAPI, Violation

EXECUTIONS = [0]
PROFILE = dict(templates=("F3",), edges="chain", dur="free", raises="free", crit_job=False, perm="id", top="pure")


class CHApi(ConcreteAPI):
    """hands CrossHair's symbolic values through without casting them"""

    def int(self, name, lo=None, hi=None):
        return self.values[name]

    def bool(self, name):
        return self.values[name]

    def flag(self, name):
        return bool(self.values.get(name, False))

    def choice(self, name, k):
        return int(self.values.get(name, 0))

    def prove(self, cond, what, detail=None):
        self.proved += 1
        if not cond:
            raise Violation(what, detail)


TWIN = [False]


def scenario(api):
    """the oracles are inlined with constant messages: under CrossHair a '%' format with a harness object as
    argument deep-copies the whole object graph (deep_realize) and overflows the stack"""
    prof = Profile(**PROFILE)
    run = build(api, prof, "F3")
    execute(run)
    api.prove(run.outcome[0] == "ret", "X: run() terminates")
    b = run.started(run.top)
    for n in run.jobs():
        st = run.started(n)
        api.prove(st is not None, "X: every job of the chain starts (failures are non-critical)")
        t_ready = b.t
        for r in n.reqs:
            f = run.finished(r)
            api.prove(f is not None and f.seq < st.seq, "X/C01: a job started before its requirement finished")
            t_ready = f.t if f.t >= t_ready else t_ready
        api.prove(st.t == t_ready, "X/C12: a job did not start at the instant its requirement finished")
        api.prove(len(run.evs(n.name, "start")) == 1, "X/C02: a job started twice")
    api.prove(run.outcome[1] is True, "X/C04: non-critical failures do not fail the run")
    if TWIN[0]:
        # reachability twin: a deliberately wrong claim that both engines must refute
        last = run.started(run.nodes["j2"])
        api.prove(last.t == b.t, "X/twin: the last job of the chain starts when the run begins")
    return run


def chain3(d0: int, d1: int, d2: int, x0: bool, x1: bool, x2: bool) -> bool:
    """
    pre: d0 >= 0 and d1 >= 0 and d2 >= 0
    post: _ is True
    """
    api = CHApi({"d_j0": d0, "d_j1": d1, "d_j2": d2, "x_j0": x0, "x_j1": x1, "x_j2": x2})
    try:
        scenario(api)
    finally:
        from env import scenario as S
        S._cleanup()
    EXECUTIONS[0] += 1
    return True


def chain3_twin(d0: int, d1: int, d2: int, x0: bool, x1: bool, x2: bool) -> bool:
    """
    pre: d0 >= 0 and d1 >= 0 and d2 >= 0
    post: _ is True
    """
    TWIN[0] = True
    try:
        return chain3(d0, d1, d2, x0, x1, x2)
    finally:
        TWIN[0] = False


def symx_harness(api):
    scenario(api)


def main():
    timeout = float(sys.argv[1]) if len(sys.argv) > 1 else 120
    opts = AnalysisOptionSet(per_condition_timeout=timeout, per_path_timeout=30, max_uninteresting_iterations=10 ** 9,
                             report_all=True, analysis_kind=[AnalysisKind.PEP316])
    t0 = time.time()
    msgs = list(run_checkables(analyze_function(chain3, opts)))
    t_ch = time.time() - t0
    import symx
    t0 = time.time()
    st = symx.explore(symx_harness)
    out = {"scenario": "F3 chain j0->j1->j2, symbolic durations (unbounded ints >= 0) and outcomes; oracles C01, C12 "
                       "(unwindowed), C02",
           "crosshair": {"states": [m.state.name for m in msgs], "messages": [m.message[:200] for m in msgs],
                         "executions": EXECUTIONS[0], "seconds": round(t_ch, 1)},
           "symx": {"paths": st.paths, "violations": len(st.violations), "inconclusive": st.inconclusive,
                    "seconds": round(time.time() - t0, 1)}}
    out["agree"] = (out["crosshair"]["states"] == ["CONFIRMED"]) == (not st.violations and not st.inconclusive)
    # twin: both engines must refute the wrong claim
    t0 = time.time()
    msgs = list(run_checkables(analyze_function(chain3_twin, opts)))
    TWIN[0] = True
    try:
        st2 = symx.explore(symx_harness)
    finally:
        TWIN[0] = False
    out["twin"] = {"crosshair_states": [m.state.name for m in msgs],
                   "crosshair_counterexample": [m.message[:200] for m in msgs][:1],
                   "symx_violations": len(st2.violations),
                   "symx_counterexample": (st2.violations[0]["values"] if st2.violations else None),
                   "seconds": round(time.time() - t0, 1)}
    out["twin_refuted_by_both"] = bool(st2.violations) and any(
        m.state.name in ("POST_FAIL", "EXEC_ERR", "POST_ERR") for m in msgs)
    out["agree"] = out["agree"] and out["twin_refuted_by_both"]
    print(json.dumps(out))


if __name__ == "__main__":
    main()
