#!/usr/bin/env python3
"""(re)generates /verif/MANIFEST.json from the property modules present under props/"""
import importlib
import json
import os
import sys

HERE = os.path.dirname(os.path.dirname(os.path.abspath(__file__)))
sys.path[:0] = [HERE, "/repo"]
ALL = ["C%02d" % i for i in range(1, 21)]

TECH = {
    "default": "bounded symbolic execution of the real code on a virtual-time event loop (own z3 path explorer "
               "symx): each branch and each assertion decided by z3 over all durations/flags of the path; "
               "counterexamples replayed with plain values",
}
NOTE = ("Trusted: CPython 3.12 asyncio primitives (executed, not modelled), the virtual-time loop's conformance "
        "to the event-loop contract (self-tested against the stock loop), z3 (a sample of queries is re-decided by "
        "z3 4.8.12 and cvc5 in the thorough tier). Assumed: wall clock = loop clock, exact integer time, jobs honour "
        "cancellation, one run per scheduler object, flags fixed during a run. Bounds (templates, number of jobs, "
        "depth, how objects are built and what was done with them before the run) are listed in the evidence file "
        "of every run and in DESIGN.md sections 9.7 and 11.3; nothing is claimed outside them.")

checks = []
na = []
for pid in ALL:
    path = os.path.join(HERE, "props", pid.lower() + ".py")
    if not os.path.exists(path):
        na.append({"property_id": pid, "reason": "check not built yet (work in progress; planned per DESIGN.md section 6)"})
        continue
    src = open(path).read()
    title = src.split('TITLE = "')[1].split('"')[0]
    tech = TECH["default"]
    if "TECHNIQUE = " in src:
        tech = src.split('TECHNIQUE = "')[1].split('"\n')[0]
    checks.append({
        "property_id": pid,
        "quick_cmd": "./check %s --tier quick" % pid,
        "thorough_cmd": "./check %s --tier thorough" % pid,
        "evidence_file": "evidence/%s.json" % pid,
        "replay_cmd_template": "./check %s --replay {path}" % pid,
        "engine": "symx",
        "level_claimed": {
            "category": "other",
            "text": "Bounded, solver-decided: within the stated bounds (templates, number of jobs, nesting depth) "
                    "every feasible path of the real code is explored and every assertion is proved by z3 for all "
                    "values of the symbolic parameters on that path (durations, timeouts, latencies are unbounded "
                    "integers). Nothing is claimed outside the bounds. " + title,
            "design_ref": "DESIGN.md section 6, " + pid,
        },
        "level_note": NOTE,
        "technique": tech,
    })

manifest = {
    "version": 1,
    "setup_cmd": "./bootstrap.sh",
    "hooks": {
        "guard": "ASYNCIOJOBS_VERIF",
        "enable": "no source hook is needed: observation is done by verification-side subclasses and a "
                  "virtual-time event loop; the guard is reserved and unused",
        "baseline_off_cmd": "cd /repo && /venv/bin/python -m pytest -ra -q -p no:cacheprovider --timeout=900 "
                            "--continue-on-collection-errors",
        "source_commits": [],
        "add_only": True,
    },
    "engines": [
        {"name": "symx", "path": "symx/", "serves_properties": [c["property_id"] for c in checks],
         "kind_free_text": "own z3-backed path explorer over the real Python code (replay-based DFS, prove/assume, "
                           "sharded over 16 processes), concrete replay mode without z3"},
        {"name": "crosshair", "path": "dot/ch_labels.py, dot/ch_run.py, xcheck/ch_engine.py",
         "serves_properties": ["C20", "C01", "C12"],
         "kind_free_text": "CrossHair 0.0.110 (z3): symbolic Unicode label strings through the real DOT quoting code "
                           "(C20 part L); cross-validation of symx on a reduced scenario (thorough C01, C12)"},
    ],
    "checks": checks,
    "not_applicable": na,
    "notes": "Known findings (KF-1, KF-3) and the ten repaired defects: known_findings.json (witnesses under known/). "
             "Seeded changes: seeded/ (120 breaking changes from independent sub-agents with detection records, 12 "
             "behaviour-preserving refactorings as negative controls); tools/seeded_detect.py, tools/regress_fixed.sh. "
             "Thorough tier = the quick harnesses explored completely + budgeted deep harnesses + second-solver audit + "
             "VLoop conformance + (C01, C12) CrossHair cross-check of the path explorer. See DESIGN.md sections 9-11.",
}
with open(os.path.join(HERE, "MANIFEST.json"), "w") as f:
    json.dump(manifest, f, indent=1)
print("MANIFEST.json: %d checks, %d not applicable" % (len(checks), len(na)))
