#!/usr/bin/env python3
"""Runs the quick (or thorough) checks against every seeded change under /verif/seeded/:
a scratch worktree of /repo is created outside /repo and /verif, the patch applied there, the target property's
check run with VERIF_REPO pointing to it (evidence files are not touched), the patch undone; the worktree is
removed at the end.  Updates seeded/<id>/meta.json and prints a table.
usage: seeded_detect.py [--tier quick] [--all-checks] [ids...]"""
import json, os, subprocess, sys, time, glob
VERIF = os.path.dirname(os.path.dirname(os.path.abspath(__file__)))
WT = "/tmp/verif-seeded-wt"


def sh(cmd, cwd=None, env=None, timeout=1500):
    r = subprocess.run(cmd, shell=True, cwd=cwd, capture_output=True, text=True, timeout=timeout, env=env)
    return r.returncode, r.stdout + r.stderr


def main():
    args = sys.argv[1:]
    tier = "quick"
    if "--tier" in args:
        i = args.index("--tier"); tier = args[i + 1]; del args[i:i + 2]
    also = []
    if "--also" in args:
        i = args.index("--also"); also = args[i + 1].split(","); del args[i:i + 2]
    allc = "--all-checks" in args
    if allc:
        args.remove("--all-checks")
    ids = args or sorted(os.path.basename(d) for d in glob.glob(os.path.join(VERIF, "seeded", "C*")))
    sh("git -C /repo worktree remove --force %s" % WT)
    rc, o = sh("git -C /repo worktree add -q --detach %s HEAD" % WT)
    assert rc == 0, o
    missed = []
    try:
        for key in ids:
            d = os.path.join(VERIF, "seeded", key)
            meta = json.load(open(os.path.join(d, "meta.json")))
            pid = meta["breaks_property"]
            sh("git checkout -- . && git clean -fdq", cwd=WT)
            rc, o = sh("git apply %s/patch.diff" % d, cwd=WT)
            if rc != 0:
                print(key, "PATCH DOES NOT APPLY", o[:200]); missed.append(key); continue
            env = dict(os.environ, VERIF_REPO=WT)
            checks = [pid] + ([c for c in ["C%02d" % i for i in range(1, 21)] if c != pid] if allc else
                              [c for c in also if c != pid])
            det = {}
            for c in checks:
                t0 = time.time()
                rc, o = sh("./check %s --tier %s --no-evidence" % (c, tier), cwd=VERIF, env=env)
                msg = [l for l in o.splitlines() if l.startswith("counterexample")]
                if rc == 1:
                    det[c] = {"seconds": round(time.time() - t0), "message": msg[0][:300] if msg else ""}
                elif rc != 0:
                    det[c] = {"seconds": round(time.time() - t0), "message": "HARNESS-ERROR (rc=%d)" % rc, "error": True}
            if also and not allc:
                prev = meta.get("detected_by_%s_checks" % tier, {})
                prev.update(det)
                det = prev
            meta["detected_by_%s_checks" % tier] = det
            meta["detection_run"] = {"tier": tier, "checks_run": checks, "repo_head": os.popen("git -C /repo rev-parse --short HEAD").read().strip()}
            json.dump(meta, open(os.path.join(d, "meta.json"), "w"), indent=1)
            ok = any(not x.get("error") for x in det.values()) if also else (pid in det and not det[pid].get("error"))
            if not ok:
                missed.append(key)
            print("%-6s %-8s %s" % (key, "DETECTED" if ok else "MISSED", {c: x["seconds"] for c, x in det.items()}),
                  (det.get(pid) or {}).get("message", "")[:150], flush=True)
    finally:
        sh("git -C /repo worktree remove --force %s" % WT)
    print("missed by the target property's own check:", missed)
    return 1 if missed else 0


if __name__ == "__main__":
    sys.exit(main())
