import json, sys
for f in sys.argv[1:]:
    d=json.load(open(f)); print(f); print(d['harness'], '|', d['what']); print({k:v for k,v in d['values'].items() if v not in (0,False)})
    det=d['detail']
    if isinstance(det, dict):
        print('\n'.join(det.get('trace') or []))
        if det.get('info'): print('INFO', json.dumps(det['info'], indent=1)[:3000])
    else: print(det)
