#!/usr/bin/env python3
"""Behaviour-preserving refactorings (written by sub-agents) must NOT raise an alarm: applies each
/tmp/ref/<Rk>/out/rN.diff in its worktree, runs the repository's tests, then the relevant quick checks against it."""
import json, os, subprocess, sys, time
VERIF = os.path.dirname(os.path.dirname(os.path.abspath(__file__)))
REF = "/tmp/ref"
SCHED = ["C%02d" % i for i in range(1, 15)]
SUBSETS = {"R1": SCHED, "R2": SCHED, "R3": SCHED, "R4": ["C15", "C16", "C17", "C18", "C01", "C02", "C12", "C20"],
           "R5": ["C19", "C01", "C16", "C18"], "R6": ["C20", "C15", "C14", "C04"]}


def sh(cmd, cwd=None, env=None, timeout=7200):
    r = subprocess.run(cmd, shell=True, cwd=cwd, capture_output=True, text=True, timeout=timeout, env=env)
    return r.returncode, r.stdout + r.stderr


def main():
    only = sys.argv[1:]
    res = {}
    for k in sorted(SUBSETS):
        for n in ("r1", "r2"):
            key = k + n
            if only and key not in only and k not in only:
                continue
            wt = os.path.join(REF, k)
            d = os.path.join(wt, "out", n + ".diff")
            if not os.path.exists(d):
                continue
            sh("git checkout -- . && git clean -fdq -e out", cwd=wt)
            rc, o = sh("git apply out/%s.diff" % n, cwd=wt)
            if rc:
                print(key, "does not apply"); continue
            rc, o = sh("/venv/bin/python -m pytest -q -p no:cacheprovider --timeout=900 2>&1 | tail -1", cwd=wt)
            tests = o.strip()
            out = {"tests": tests, "checks": {}}
            env = dict(os.environ, VERIF_REPO=wt)
            for c in SUBSETS[k]:
                t0 = time.time()
                rc, o = sh("./check %s --tier quick --no-evidence" % c, cwd=VERIF, env=env)
                msg = [l for l in o.splitlines() if l.startswith("counterexample") or "HARNESS-ERROR" in l]
                out["checks"][c] = {"rc": rc, "s": round(time.time() - t0), "msg": msg[0][:400] if msg else ""}
                if rc:
                    print(key, c, "rc=%d" % rc, msg[0][:300] if msg else "", flush=True)
            sh("git checkout -- . && git clean -fdq -e out", cwd=wt)
            alarms = [c for c, x in out["checks"].items() if x["rc"]]
            print(key, tests, "ALARMS: %s" % alarms if alarms else "no alarm on %d checks" % len(out["checks"]), flush=True)
            res[key] = out
            json.dump(res, open(os.path.join(REF, "results.json"), "w"), indent=1)


if __name__ == "__main__":
    main()
