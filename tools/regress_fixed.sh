#!/bin/sh
# For every "fix:" commit of /repo: revert it alone in a scratch worktree (outside /repo and /verif) and run the
# check of the property it was found by -- the violation must come back.  Prints one line per commit.
cd "$(dirname "$0")/.."
WT=/tmp/verif-regress-wt
git -C /repo worktree remove --force $WT 2>/dev/null
rc_all=0
for pair in 1692937:C03 fdfdd28:C04 6545b71:C14 4f3738d:C11 411c473:C16 42e9103:C19 44d2cc6:C19 c8c1932:C19 f939d5b:C11; do
  c=${pair%%:*}; p=${pair##*:}
  git -C /repo worktree add -q --detach $WT HEAD || exit 2
  if [ $c = 42e9103 ]; then
    # adjacent to 44d2cc6: reverted by hand (drop the chaining loop that the fix added)
    (cd $WT && python3 - <<'PY'
p = 'asynciojobs/sequence.py'
s = open(p).read()
old = """        # create the chain of requirements among the new jobs
        for job1, job2 in zip(new_jobs, new_jobs[1:]):
            job2.requires(job1)
"""
assert old in s
open(p, 'w').write(s.replace(old, ''))
PY
    )
    ok=$?
  else
    (cd $WT && git revert --no-commit $c >/dev/null 2>&1); ok=$?
  fi
  if [ $ok -eq 0 ]; then
    out=$(VERIF_REPO=$WT ./check $p --tier quick --no-evidence 2>&1); rc=$?
    msg=$(echo "$out" | grep -m1 '^counterexample')
    if [ $rc -eq 1 ]; then echo "revert $c -> $p: VIOLATION returns  | $msg" | cut -c1-220; else echo "revert $c -> $p: NOT DETECTED (rc=$rc)"; rc_all=1; fi
  else
    echo "revert $c: does not revert cleanly"; rc_all=1
  fi
  git -C /repo worktree remove --force $WT
done
exit $rc_all
