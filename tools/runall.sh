#!/bin/sh
# runs every check of a tier in sequence; prints one line per check
TIER=${1:-quick}
cd "$(dirname "$0")/.."
for i in 01 02 03 04 05 06 07 08 09 10 11 12 13 14 15 16 17 18 19 20; do
  t0=$(date +%s)
  ./check C$i --tier $TIER > /tmp/verif-C$i-$TIER.log 2>&1
  rc=$?
  t1=$(date +%s)
  echo "C$i rc=$rc $((t1-t0))s $(grep -c 'KNOWN-FINDING' /tmp/verif-C$i-$TIER.log) known $(grep -E 'VIOLATION|HARNESS-ERROR|INCONCLUSIVE|INCOMPLETE' /tmp/verif-C$i-$TIER.log | head -3 | tr '\n' ' ')"
done
