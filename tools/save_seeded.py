#!/usr/bin/env python3
"""copies confirmed seeded changes from /tmp/mut/<ID>/out into /verif/seeded/<ID><variant>/"""
import json, os, shutil, re, sys
MUT = os.environ.get("MUTDIR", "/tmp/mut")
VERIF = os.path.dirname(os.path.dirname(os.path.abspath(__file__)))
res = json.load(open(os.path.join(MUT, "results.json")))
for key, r in sorted(res.items()):
    if not r.get("confirmed"):
        continue
    pid, v = key[:3], key[3]
    src = os.path.join(MUT, pid, "out")
    dst = os.path.join(VERIF, "seeded", key)
    os.makedirs(dst, exist_ok=True)
    shutil.copy(os.path.join(src, "mut%s.diff" % v), os.path.join(dst, "patch.diff"))
    demo = open(os.path.join(src, "demo%s.py" % v)).read()
    open(os.path.join(dst, "demo.py"), "w").write(demo)
    notes = open(os.path.join(src, "notes.md")).read() if os.path.exists(os.path.join(src, "notes.md")) else ""
    open(os.path.join(dst, "notes.md"), "w").write(notes)
    det = {}
    for grp in ("target", "others"):
        for c, x in (r.get(grp) or {}).items():
            if x["rc"] == 1:
                det[c] = {"seconds": x["s"], "message": x["msg"]}
    meta = {
        "id": key,
        "breaks_property": pid,
        "origin": "independent sub-agent given only the property text and a scratch worktree of /repo",
        "patch": "patch.diff (git apply on /repo HEAD %s)" % os.popen("git -C /repo rev-parse --short HEAD").read().strip(),
        "needs_to_manifest": "see notes.md (section for change %s)" % v,
        "confirmed": {"demo_exit_with_change": r.get("demo_mut_rc"), "demo_exit_without": r.get("demo_clean_rc"),
                      "test_suite_with_change": r.get("tests"),
                      "demo_note": "demo.py hard-codes sys.path '/tmp/mut/%s' (the scratch worktree it was written in)" % pid},
        "what_was_run": ["git apply patch.diff (scratch worktree)", "/venv/bin/python demo.py -> exit 1",
                         "/venv/bin/python -m pytest -q -p no:cacheprovider --timeout=900 -> all passed",
                         "git checkout -- . ; demo.py -> exit 0",
                         "VERIF_REPO=<worktree with the change> ./check <id> --tier quick --no-evidence"],
        "detected_by_quick_checks": det,
    }
    json.dump(meta, open(os.path.join(dst, "meta.json"), "w"), indent=1)
print("saved", len([k for k, r in res.items() if r.get("confirmed")]))
