#!/usr/bin/env python3
"""Evaluation of seeded changes.
phase 'confirm':  for every /tmp/mut/<ID>/out/mut{A,B}.diff: apply in the agent's worktree, run the demo (must exit 1),
                  run the repository's test-suite (must pass), undo, run the demo (must exit 0).
phase 'detect':   apply, run the target property's quick check against that worktree (VERIF_REPO), undo; if not
                  detected run every other quick check.
Results: /tmp/mut/results.json
"""
import concurrent.futures as cf
import json
import os
import subprocess
import sys
import time

MUT = os.environ.get("MUTDIR", "/tmp/mut")
VERIF = os.path.dirname(os.path.dirname(os.path.abspath(__file__)))
RES = os.path.join(MUT, "results.json")


def sh(cmd, cwd=None, timeout=1800, env=None):
    r = subprocess.run(cmd, shell=True, cwd=cwd, capture_output=True, text=True, timeout=timeout, env=env)
    return r.returncode, r.stdout + r.stderr


def load():
    return json.load(open(RES)) if os.path.exists(RES) else {}


def save(res):
    json.dump(res, open(RES, "w"), indent=1)


def mutants():
    out = []
    for pid in sorted(os.listdir(MUT)):
        d = os.path.join(MUT, pid, "out")
        if os.path.isdir(d):
            for v in "AB":
                if os.path.exists(os.path.join(d, "mut%s.diff" % v)):
                    out.append((pid, v))
    return out


def confirm_prop(pid, variants):
    wt = os.path.join(MUT, pid)
    out = {}
    for v in variants:
        key = pid + v
        r = {}
        sh("git checkout -- . && git clean -fdq -e out", cwd=wt)
        rc0, _ = sh("/venv/bin/python out/demo%s.py" % v, cwd=wt, timeout=300)
        r["demo_clean_rc"] = rc0
        rc, o = sh("git apply out/mut%s.diff" % v, cwd=wt)
        r["applies"] = rc == 0
        if rc == 0:
            rc1, o1 = sh("/venv/bin/python out/demo%s.py" % v, cwd=wt, timeout=300)
            r["demo_mut_rc"] = rc1
            r["demo_mut_out"] = o1[-600:]
            rct, ot = sh("/venv/bin/python -m pytest -q -p no:cacheprovider --timeout=900 -x 2>&1 | tail -3", cwd=wt)
            r["tests"] = ot.strip().splitlines()[-1] if ot.strip() else ""
        sh("git checkout -- . && git clean -fdq -e out", cwd=wt)
        r["confirmed"] = bool(r.get("applies") and r.get("demo_clean_rc") == 0 and r.get("demo_mut_rc") == 1
                              and " passed" in r.get("tests", "") and "failed" not in r.get("tests", ""))
        out[key] = r
    return out


def detect(pid, v, checks, tier="quick"):
    wt = os.path.join(MUT, pid)
    sh("git checkout -- . && git clean -fdq -e out", cwd=wt)
    rc, _ = sh("git apply out/mut%s.diff" % v, cwd=wt)
    assert rc == 0
    env = dict(os.environ, VERIF_REPO=wt)
    out = {}
    try:
        for c in checks:
            t0 = time.time()
            rc, o = sh("./check %s --tier %s --no-evidence" % (c, tier), cwd=VERIF, env=env, timeout=3600)
            line = [l for l in o.splitlines() if l.startswith("counterexample") or "HARNESS-ERROR" in l
                    or l.startswith("INCONCLUSIVE")]
            out[c] = {"rc": rc, "s": round(time.time() - t0), "msg": (line[0][:300] if line else "")}
            if rc == 1:
                break
    finally:
        sh("git checkout -- . && git clean -fdq -e out", cwd=wt)
    return out


def main():
    phase = sys.argv[1]
    res = load()
    if phase == "confirm":
        props = {}
        for pid, v in mutants():
            if pid + v not in res or "confirmed" not in res[pid + v]:
                props.setdefault(pid, []).append(v)
        with cf.ThreadPoolExecutor(max_workers=10) as ex:
            for out in ex.map(lambda kv: confirm_prop(*kv), props.items()):
                for k, r in out.items():
                    res.setdefault(k, {}).update(r)
                    print(k, "confirmed" if r["confirmed"] else "NOT CONFIRMED", r.get("tests"), r.get("demo_clean_rc"),
                          r.get("demo_mut_rc"), flush=True)
                save(res)
    elif phase == "detect":
        only = sys.argv[2:]
        allc = ["C%02d" % i for i in range(1, 21)]
        for pid, v in mutants():
            key = pid + v
            if only and key not in only and pid not in only:
                continue
            r = res.setdefault(key, {})
            if not r.get("confirmed"):
                continue
            d = detect(pid, v, [pid])
            r["target"] = d
            if d[pid]["rc"] != 1:
                others = [c for c in allc if c != pid]
                r["others"] = detect(pid, v, others)
            print(key, {c: (x["rc"], x["s"]) for c, x in {**r.get("target", {}), **r.get("others", {})}.items()
                        if x["rc"] != 0}, d[pid]["msg"][:160], flush=True)
            save(res)


if __name__ == "__main__":
    main()
