#!/usr/bin/env python3
"""prints a markdown inventory of the harnesses of every check (name, templates/bounds, free parameters)"""
import sys, os, json
HERE = os.path.dirname(os.path.dirname(os.path.abspath(__file__)))
sys.path[:0] = [HERE, "/repo"]
import runner
for i in range(1, 21):
    pid = "C%02d" % i
    mod = runner.prop_module(pid)
    print("* **%s** %s" % (pid, mod.TITLE))
    for tier in ("quick", "thorough"):
        for h in mod.harnesses(tier):
            b = h.bounds
            t = b.get("templates") or b.get("shapes") or b.get("nodes") or b.get("statements") or ""
            if isinstance(t, dict):
                t = ",".join(t.keys())
            free = ", ".join(str(x) for x in h.free)
            fixed = []
            for k in ("window", "timeout", "sdt", "lat", "sd", "forever", "never", "raises", "crit_job", "perm", "ties", "post", "verbose", "construct", "window_via"):
                if k in b and b[k] not in (None, False, 0, "ctor", "free", "always", "two") and k not in ("perm",):
                    fixed.append("%s=%s" % (k, b[k]))
            print("  - %s `%s`: %s | free: %s%s" % ("Q" if tier == "quick" else "deep", h.name, t, free or "-",
                                                   (" | pinned: " + ", ".join(fixed)) if fixed else ""))
