"""Check runner: shards the decision tree of each harness over a process pool, replays every
counterexample with plain values under the test-suite's interpreter, handles known findings,
writes the evidence file.
"""
import argparse
import concurrent.futures as cf
import hashlib
import importlib
import json
import multiprocessing as mp
import os
import subprocess
import sys
import time

HERE = os.path.dirname(os.path.abspath(__file__))
REPO = os.environ.get("VERIF_REPO", "/repo")
PKG = os.path.join(REPO, "asynciojobs")
NPROC = int(os.environ.get("VERIF_JOBS", "0")) or min(16, os.cpu_count() or 4)
REPLAY_PY = "/venv/bin/python"

EXIT_OK, EXIT_VIOLATION, EXIT_HARNESS = 0, 1, 2
SLICE_S = 2.0


def prop_module(pid):
    return importlib.import_module("props." + pid.lower())


def harness_list(pid, tier):
    """quick: the module's quick harnesses.  thorough: the same harnesses (explored completely, so that whatever
    the quick tier finds the thorough tier finds too) followed by the module's deep harnesses (name prefix 'deep/'),
    which share what is left of the time budget and report honestly when they did not finish."""
    mod = prop_module(pid)
    if tier != "thorough":
        return mod.harnesses(tier)
    hs = list(mod.harnesses("quick"))
    same = {(h.name, json.dumps(h.bounds, sort_keys=True, default=str)) for h in hs}
    for h in mod.harnesses("thorough"):
        if (h.name, json.dumps(h.bounds, sort_keys=True, default=str)) in same:
            continue                    # identical to a quick harness
        h.name = "deep/" + h.name
        hs.append(h)
    return hs


def get_harness(pid, tier, name):
    for h in harness_list(pid, tier):
        if h.name == name:
            return h
    raise KeyError("no harness %s in %s/%s" % (name, pid, tier))


class Harness:
    """name, fn(api), and descriptive metadata used in the evidence"""

    def __init__(self, name, fn, bounds=None, free=None, budget_s=None, engine="symx",
                 nontrivial="nt", required_notes=(), cut0=8):
        self.name = name
        self.fn = fn
        self.bounds = bounds or {}
        self.free = free or []
        self.budget_s = budget_s
        self.engine = engine
        self.nontrivial = nontrivial
        self.required_notes = tuple(required_notes)
        self.cut0 = cut0


# ------------------------------------------------------------------------------- workers
def _worker_init():
    sys.path[:0] = [p for p in (HERE, REPO) if p not in sys.path]
    os.environ.setdefault("PYTHONHASHSEED", "0")


_FUNCS = {}


def _profile_funcs(fn, harness_fn):
    """collect the asynciojobs functions executed while running fn (sample of paths)"""
    seen = set()
    root = PKG + os.sep

    def tracer(frame, event, arg):
        if event == "call":
            co = frame.f_code
            if co.co_filename.startswith(root):
                seen.add((os.path.basename(co.co_filename), co.co_qualname))
    sys.setprofile(tracer)
    try:
        return fn(), seen
    finally:
        sys.setprofile(None)


def _task(args):
    """runs in a pool process"""
    kind, pid, tier, name, prefix, cut_depth, deadline, seed, profile_funcs = args
    import symx
    h = get_harness(pid, tier, name)
    budget = None
    if deadline is not None:
        budget = max(1.0, deadline - time.time())

    def go():
        return symx.explore(h.fn, fixed_prefix=prefix, cut_depth=cut_depth, budget_s=budget,
                            seed=seed, slice_s=(SLICE_S if kind == "shard" else None))
    if profile_funcs:
        st, funcs = _profile_funcs(go, h.fn)
    else:
        st, funcs = go(), set()
    d = st.as_dict()
    hook = getattr(prop_module(pid), "after_shard", None)
    if hook is not None:
        d["violations"] = list(d["violations"]) + hook()
    d["funcs"] = sorted(funcs)
    d["prefix_len"] = len(prefix)
    return d


# ------------------------------------------------------------------------------- master
class Agg:
    def __init__(self):
        self.paths = self.ok = self.infeasible = 0
        self.queries = 0
        self.solver_s = 0.0
        self.proved = 0
        self.notes = {}
        self.inconclusive = {}
        self.samples = []
        self.violations = []
        self.exhausted = True
        self.funcs = set()
        self.max_depth = 0
        self.shards = 0
        self.cpu_s = 0.0
        self.known = {}
        self.audit = []

    def add(self, d, count_cut=False):
        self.paths += d["paths"] - d["cut"]
        self.ok += d["ok"]
        self.infeasible += d["infeasible"]
        self.queries += d["queries"]
        self.solver_s += d["solver_s"]
        self.proved += d["proved"]
        self.cpu_s += d["wall_s"]
        for k, v in d["notes"].items():
            self.notes[k] = self.notes.get(k, 0) + v
        for k, v in d["inconclusive"].items():
            self.inconclusive[k] = self.inconclusive.get(k, 0) + v
        if len(self.samples) < 4:
            self.samples.extend(d["samples"][:1])
        self.violations.extend(d["violations"])
        for kid, vals in d.get("known", {}).items():
            self.known.setdefault(kid, vals)
        if len(self.audit) < 120:
            self.audit.extend(d.get("audit", [])[:2])
        if not d["exhausted"]:
            self.exhausted = False
        self.funcs.update(tuple(f) for f in d["funcs"])
        self.max_depth = max(self.max_depth, d["max_depth"])


def explore_parallel(pool, pid, tier, h, deadline, seed, log):
    """returns Agg for harness h"""
    agg = Agg()
    target = NPROC * 24
    # round 1: expand the root
    t0 = time.time()
    d = pool.submit(_task, ("expand", pid, tier, h.name, [], h.cut0, deadline, seed, True)).result()
    agg.add(d)
    prefixes = d["cut_prefixes"]
    depth = h.cut0
    rounds = 0
    while prefixes and len(prefixes) < target and rounds < 3 and not agg.violations:
        depth += 5
        rounds += 1
        futs = [pool.submit(_task, ("expand", pid, tier, h.name, p, depth, deadline, seed, False))
                for p in prefixes]
        prefixes = []
        for f in futs:
            d = f.result()
            agg.add(d)
            prefixes.extend(d["cut_prefixes"])
    t_exp = time.time()
    if agg.violations:
        return agg
    pending = set()
    nshards = 0

    def submit(p):
        pending.add(pool.submit(_task, ("shard", pid, tier, h.name, p, None, deadline, seed, False)))
    for p in prefixes:
        submit(p)
        nshards += 1
    stop = False
    while pending and not stop:
        done, pending = cf.wait(pending, timeout=5, return_when=cf.FIRST_COMPLETED)
        if deadline is not None and time.time() > deadline + 5:
            # budget exhausted: shards not started yet are dropped and counted
            dropped = [g for g in pending if g.cancel()]
            if dropped:
                agg.exhausted = False
                agg.inconclusive["budget: shards not started"] = \
                    agg.inconclusive.get("budget: shards not started", 0) + len(dropped)
                pending = set(g for g in pending if not g.cancelled())
        for f in done:
            d = f.result()
            agg.add(d)
            if d["violations"]:
                stop = True
            for p in d["cut_prefixes"]:
                if not stop:
                    submit(p)
                    nshards += 1
    for g in pending:
        g.cancel()
    agg.shards = nshards
    log("  %-28s %8d paths  %6d shards  %7d queries  %6.1fs solver  %6.1fs cpu  %5.1fs expand  %6.1fs wall%s"
        % (h.name, agg.paths, agg.shards, agg.queries, agg.solver_s, agg.cpu_s, t_exp - t0, time.time() - t0,
           "" if agg.exhausted and not agg.inconclusive else "  INCOMPLETE %s" % agg.inconclusive))
    return agg


SCENARIO_PROPS = {"C%02d" % i for i in range(1, 15)}


def second_solver_audit(items, log):
    """re-decides a sample of the queries (path condition, and path condition + negated assertion) with
    /usr/bin/z3 (4.8.12) and cvc5; any disagreement, error or unknown is reported"""
    import shutil
    import tempfile
    res = {"queries": len(items), "solvers": {}, "disagreements": 0, "errors": 0, "failed": False}
    if not items:
        return res
    tmp = tempfile.mkdtemp(prefix="verif-audit-")
    try:
        paths = []
        for i, (text, want) in enumerate(items):
            p = os.path.join(tmp, "q%d.smt2" % i)
            with open(p, "w") as f:
                f.write("(set-logic ALL)\n" + text + "\n")
            paths.append((p, want))
        solvers = [("z3-4.8.12", ["/usr/bin/z3", "-smt2", "-T:20"]), ("cvc5", ["cvc5", "--tlimit=20000"])]
        for name, cmd in solvers:
            if shutil.which(cmd[0]) is None:
                res["solvers"][name] = "not installed"
                continue
            agree = dis = err = 0

            def one(pw):
                p, want = pw
                try:
                    r = subprocess.run(cmd + [p], capture_output=True, text=True, timeout=60)
                    out = (r.stdout + r.stderr).strip()
                except subprocess.TimeoutExpired:
                    out = "timeout"
                first = out.splitlines()[0].strip() if out else ""
                return first, want, out
            with cf.ThreadPoolExecutor(max_workers=NPROC) as ex:
                for first, want, out in ex.map(one, paths):
                    if "(error" in out or first not in ("sat", "unsat"):
                        err += 1
                    elif first == want:
                        agree += 1
                    else:
                        dis += 1
            res["solvers"][name] = {"agree": agree, "disagree": dis, "error_or_unknown": err}
            res["disagreements"] += dis
            res["errors"] += err
        res["failed"] = res["disagreements"] > 0
        log("  second-solver audit: %d queries, %s" % (len(items), res["solvers"]))
    finally:
        shutil.rmtree(tmp, ignore_errors=True)
    return res


def crosshair_crosscheck(log):
    """engine B (CrossHair) explores the same reduced scenario as engine A: verdicts must agree, and both must
    refute a deliberately wrong twin claim"""
    env = dict(os.environ)
    env["PYTHONPATH"] = os.pathsep.join([HERE, REPO])
    try:
        r = subprocess.run([sys.executable, "-m", "xcheck.ch_engine", "300"], env=env, cwd=HERE,
                           capture_output=True, text=True, timeout=1500)
        line = [l for l in r.stdout.splitlines() if l.startswith("{")]
        res = json.loads(line[-1])
    except Exception as e:
        res = {"error": repr(e), "agree": False}
    res["failed"] = not res.get("agree")
    log("  CrossHair cross-check of symx: crosshair %s (%s executions), symx %s paths; twin refuted by both: %s"
        % (res.get("crosshair", {}).get("states"), res.get("crosshair", {}).get("executions"),
           res.get("symx", {}).get("paths"), res.get("twin_refuted_by_both")))
    return res


def vloop_conformance(seed, n, log):
    env = dict(os.environ)
    env["PYTHONPATH"] = os.pathsep.join([HERE, REPO])
    py = REPLAY_PY if os.path.exists(REPLAY_PY) else sys.executable
    try:
        r = subprocess.run([py, os.path.join(HERE, "env", "conformance.py"), str(seed + 1), str(n)], env=env,
                           capture_output=True, text=True, timeout=600)
        res = json.loads(r.stdout)
    except Exception as e:
        res = {"error": repr(e), "disagreements": ["could not run"]}
    res["failed"] = bool(res.get("disagreements"))
    log("  VLoop conformance vs the stock asyncio loop: %s/%s tie-free scenarios agree (%s skipped for ties)"
        % (res.get("agree"), res.get("scenarios"), res.get("skipped_ties", 0)))
    return res


def source_hashes():
    out = {}
    for fn in sorted(os.listdir(PKG)):
        if fn.endswith(".py"):
            with open(os.path.join(PKG, fn), "rb") as f:
                out[fn] = hashlib.sha256(f.read()).hexdigest()[:16]
    return out


def load_known():
    p = os.path.join(HERE, "known_findings.json")
    if not os.path.exists(p):
        return []
    with open(p) as f:
        return json.load(f).get("findings", [])


def write_replay(pid, tier, hname, viol):
    os.makedirs(os.path.join(HERE, "replays"), exist_ok=True)
    body = {"property": pid, "tier": tier, "harness": hname, "what": viol["what"],
            "values": viol["values"], "detail": viol.get("detail")}
    dig = hashlib.sha256(json.dumps(body, sort_keys=True, default=str).encode()).hexdigest()[:10]
    path = os.path.join(HERE, "replays", "%s-%s.json" % (pid, dig))
    with open(path, "w") as f:
        json.dump(body, f, indent=1, default=str)
    return path


def replay_external(path):
    """re-executes the counterexample with plain values under the test-suite's interpreter
    (no z3 there).  Returns (reproduced?, output)"""
    env = dict(os.environ)
    env["PYTHONPATH"] = os.pathsep.join([HERE, REPO])
    env["PYTHONHASHSEED"] = "0"
    env["PYTHONDONTWRITEBYTECODE"] = "1"
    py = REPLAY_PY if os.path.exists(REPLAY_PY) else sys.executable
    r = subprocess.run([py, os.path.join(HERE, "runner.py"), "--replay", path, "--quiet-replay"],
                       env=env, capture_output=True, text=True, timeout=600)
    return r.returncode, r.stdout + r.stderr


def do_replay(path, quiet=False):
    import symx
    with open(path) as f:
        body = json.load(f)
    pid = body["property"]
    h = get_harness(pid, body.get("tier", "quick"), body["harness"])
    outcome, what, detail, api = symx.run_concrete(h.fn, body["values"])
    if outcome == "violation":
        print("replay: the oracle of %s fails on the real code: %s" % (pid, what))
        if isinstance(detail, dict) and detail.get("known_class"):
            print("KNOWN-CLASS %s" % detail["known_class"])
        if detail and not quiet:
            print(detail if isinstance(detail, str) else json.dumps(detail, indent=1, default=str))
        if not quiet:
            print("VIOLATION property=%s replay=%s" % (pid, path))
        return EXIT_VIOLATION
    print("replay: outcome=%s %s" % (outcome, what or ""))
    return EXIT_OK if outcome == "ok" else EXIT_HARNESS


def matches_known(known, pid, what, replay_output):
    """a violation is attributed to a known finding only if the failed clause is the recorded
    one and the replay's trace satisfies the finding's predicate (printed by the harness as
    'KNOWN-CLASS <id>')"""
    for k in known:
        if k.get("status") != "open" or k["property"] != pid:
            continue
        if ("KNOWN-CLASS %s" % k["id"]) in replay_output:
            return k
    return None


def main(argv=None):
    ap = argparse.ArgumentParser()
    ap.add_argument("pid", nargs="?")
    ap.add_argument("--tier", default=os.environ.get("VERIF_TIER", "quick"))
    ap.add_argument("--replay")
    ap.add_argument("--quiet-replay", action="store_true")
    ap.add_argument("--only", help="run a single harness")
    ap.add_argument("--budget", type=float, help="wall budget in seconds for the exploration")
    ap.add_argument("--no-evidence", action="store_true")
    args = ap.parse_args(argv)
    _worker_init()
    if args.replay:
        return do_replay(args.replay, quiet=args.quiet_replay)
    pid = args.pid.upper()
    tier = args.tier if args.tier in ("quick", "thorough") else "quick"
    if tier == "thorough":
        os.environ["VERIF_AUDIT"] = "1"
    seed = int(os.environ.get("VERIF_SEED", "0") or 0)
    mod = prop_module(pid)
    t_start = time.time()

    def log(msg):
        print(msg, flush=True)

    log("== %s (%s)  tier=%s  seed=%d  repo=%s" % (pid, mod.TITLE, tier, seed, REPO))
    if hasattr(mod, "run_check"):       # properties with their own driver (C20-L: CrossHair)
        return mod.run_check(tier, seed, log, args)
    known = [k for k in load_known() if k["property"] == pid]
    os.environ["VERIF_KNOWN"] = ",".join(sorted({k["id"] for k in known if k.get("status") == "open"
                                                 and k.get("class") == "history"}))
    hs = harness_list(pid, tier)
    if args.only:
        hs = [h for h in hs if h.name == args.only]
    budget = args.budget or float(os.environ.get("VERIF_BUDGET", 0)) or \
        getattr(mod, "BUDGET", {}).get(tier, 240 if tier == "quick" else 900)
    deadline = time.time() + budget
    ctx = mp.get_context("spawn")
    aggs = {}
    new_violation = None
    known_lines = []
    # known findings: replay each recorded witness first
    for k in known:
        if k.get("status") != "open" or not k.get("witness"):
            continue
        wpath = os.path.join(HERE, k["witness"])
        code, out = replay_external(wpath)
        if code == EXIT_VIOLATION:
            known_lines.append("KNOWN-FINDING: property=%s %s" % (pid, k["what"]))
        else:
            known_lines.append("note: recorded finding %s of %s no longer reproduces (%s)"
                               % (k["id"], pid, "passes" if code == 0 else "harness error"))
    for line in known_lines:
        log(line)
    harness_error = None
    with cf.ProcessPoolExecutor(max_workers=NPROC, mp_context=ctx, initializer=_worker_init) as pool:
        for hi, h in enumerate(hs):
            # the remaining budget is shared equally among the harnesses still to run
            if tier == "thorough" and not h.name.startswith("deep/"):
                h_deadline = deadline       # the quick harnesses are explored completely
            else:
                h_deadline = time.time() + max(5.0, (deadline - time.time()) / (len(hs) - hi))
            agg = explore_parallel(pool, pid, tier, h, h_deadline, seed, log)
            aggs[h.name] = agg
            for kid, vals in agg.known.items():
                kf = [k for k in known if k["id"] == kid][0]
                path = write_replay(pid, tier, h.name, {"what": "representative of known finding " + kid,
                                                        "values": vals})
                code, out = replay_external(path)
                if code == EXIT_VIOLATION and ("KNOWN-CLASS %s" % kid) in out:
                    line = "KNOWN-FINDING: property=%s %s" % (pid, kf["what"])
                    if line not in known_lines:
                        known_lines.append(line)
                        log(line)
                    log("  (%d path(s) of %s attributed to %s by its trace predicate; representative replayed)"
                        % (agg.notes.get("known:" + kid, 0), h.name, kid))
                    os.remove(path)
                else:
                    harness_error = (h, {"what": "representative of %s does not reproduce as such" % kid}, path, out)
            for v in agg.violations:
                path = write_replay(pid, tier, h.name, v)
                code, out = replay_external(path)
                if code == EXIT_VIOLATION:
                    k = matches_known(known, pid, v["what"], out)
                    if k is not None:
                        line = "KNOWN-FINDING: property=%s %s" % (pid, k["what"])
                        if line not in known_lines:
                            known_lines.append(line)
                            log(line)
                        v["known"] = k["id"]
                        os.remove(path)
                        continue
                    new_violation = (h, v, path, out)
                    break
                else:
                    harness_error = (h, v, path, out)
                    break
            if new_violation or harness_error:
                break
    extra = None
    if hasattr(mod, "extra_checks") and not new_violation and not harness_error and not args.only:
        extra = mod.extra_checks(tier, seed, log)
        for v in extra["violations"]:
            path = write_replay(pid, v["tier"], v["harness"], v)
            code, out = replay_external(path)
            hh = Harness(v["harness"], None)
            if code == EXIT_VIOLATION:
                new_violation = (hh, v, path, out)
            else:
                harness_error = (hh, v, path, out)
            break
    trusted = {}
    if tier == "thorough" and not new_violation and not harness_error and not args.only:
        items = []
        for a in aggs.values():
            items += a.audit
        trusted["second_solver_audit"] = second_solver_audit(items[:200], log)
        if getattr(mod, "USES_VLOOP", False) or pid in SCENARIO_PROPS:
            trusted["vloop_conformance"] = vloop_conformance(seed, 40, log)
        if pid in ("C01", "C12"):
            trusted["crosshair_crosscheck_of_symx"] = crosshair_crosscheck(log)
    elif tier == "quick" and pid == "C01" and not args.only:
        trusted["vloop_conformance"] = vloop_conformance(seed, 16, log)
    trusted_failed = [k for k, v in trusted.items() if v.get("failed")]
    for k in trusted_failed:
        # a failed validation of the trusted base does not say the property is violated: the run is reported as
        # inconclusive (evidence: exhaustive false, details under coverage.<name>), the exit code stays 0
        log("INCONCLUSIVE: validation of the trusted base failed: %s: %s" % (k, json.dumps(trusted[k])[:1500]))
    wall = time.time() - t_start
    rc = EXIT_OK
    if new_violation:
        h, v, path, out = new_violation
        log("counterexample (%s): %s" % (h.name, v["what"]))
        log(out.strip()[-3000:])
        log("VIOLATION property=%s replay=%s" % (pid, path))
        rc = EXIT_VIOLATION
    elif harness_error:
        h, v, path, out = harness_error
        log("HARNESS-ERROR: a solver model did not reproduce on the real code (%s: %s); replay file %s"
            % (h.name, v["what"], path))
        log(out.strip()[-3000:])
        rc = EXIT_HARNESS
    if not args.no_evidence:
        write_evidence(pid, tier, seed, mod, hs, aggs, wall, rc, known_lines, extra, trusted)
    vac = []
    for h in hs:
        a = aggs.get(h.name)
        if a is None:
            continue
        for n in h.required_notes:
            if a.notes.get(n, 0) == 0 and rc == EXIT_OK:
                vac.append("%s:%s" % (h.name, n))
    if vac:
        log("INCONCLUSIVE: clauses never exercised: %s" % ", ".join(vac))
    log("== %s done in %.1fs: %s" % (pid, wall, {0: "no violation", 1: "VIOLATION", 2: "HARNESS-ERROR"}[rc]))
    return rc


def write_evidence(pid, tier, seed, mod, hs, aggs, wall, rc, known_lines, extra=None, trusted=None):
    tot = Agg()
    per = {}
    vacuous = []
    for h in hs:
        a = aggs.get(h.name)
        if a is None:
            continue
        per[h.name] = {"paths": a.paths, "ok_paths": a.ok, "infeasible_after_assume": a.infeasible,
                       "shards": a.shards, "solver_queries": a.queries, "solver_s": round(a.solver_s, 2),
                       "cpu_s": round(a.cpu_s, 1),
                       "prove_obligations": a.proved, "clause_counters": a.notes,
                       "inconclusive": a.inconclusive, "exhaustive": a.exhausted and not a.inconclusive,
                       "max_decisions_on_a_path": a.max_depth,
                       "bounds": h.bounds, "free_parameters": h.free}
        tot.paths += a.paths
        tot.ok += a.ok
        tot.queries += a.queries
        tot.solver_s += a.solver_s
        tot.proved += a.proved
        tot.funcs |= a.funcs
        tot.samples += a.samples[:2]
        if not a.exhausted or a.inconclusive:
            tot.exhausted = False
        tot.notes[h.name] = a.notes.get(h.nontrivial, 0)
        for n in h.required_notes:
            if a.notes.get(n, 0) == 0:
                vacuous.append("%s:%s" % (h.name, n))
    nontrivial = sum(tot.notes.values())
    nviol = 1 if rc == EXIT_VIOLATION else 0
    ev = {
        "property_id": pid,
        "tier": tier,
        "seed": seed,
        "level": "other",
        "wall_s": round(wall, 2),
        "violations": nviol,
        "coverage": {
            "explanation": "bounded symbolic execution of the real asynciojobs code (imported from %s): "
                           "inputs/durations/flags are z3 terms, every branch and every assertion is decided by "
                           "z3 over the whole region of the path; counterexamples are replayed with plain values. "
                           % REPO + getattr(mod, "EXPLANATION", ""),
            "evaluations": tot.paths,
            "distinct_nontrivial": nontrivial,
            "rule": getattr(mod, "RULE", "one evaluation = one feasible path of the decision tree (a region of "
                                         "the input space); non-trivial = the property's antecedent was exercised "
                                         "on that path; paths are pairwise disjoint regions, hence distinct"),
            "samples": tot.samples[:4] or ["(no sample recorded)"],
            "obligations": tot.proved,
            "discharged": tot.proved if rc == EXIT_OK else max(0, tot.proved - 1),
            "solver_queries": tot.queries,
            "solver_s": round(tot.solver_s, 2),
            "exhaustive": bool(tot.exhausted and not vacuous and rc == EXIT_OK),
            "vacuous_clauses": vacuous,
            "functions_encoded": sorted("%s:%s" % f for f in tot.funcs),
            "source_sha256_16": source_hashes(),
            "harnesses": per,
            "outside_bounds": getattr(mod, "OUTSIDE", []) + (COMMON_OUTSIDE if pid in SCENARIO_PROPS else []),
            "known_findings_reported": known_lines,
            "engine": "symx (own z3 path explorer, /verif/symx) on z3 %s" % _z3_version(),
        },
        "assumptions": getattr(mod, "ASSUMPTIONS", []) + COMMON_ASSUMPTIONS,
    }
    for k, v in (trusted or {}).items():
        ev["coverage"][k] = v
        if v.get("failed"):
            ev["coverage"]["exhaustive"] = False
    if extra is not None:
        ev["coverage"]["crosshair"] = extra["evidence"]
        ev["coverage"]["evaluations"] += extra["evaluations"]
        ev["coverage"]["distinct_nontrivial"] += extra["nontrivial"]
        if extra["inconclusive"]:
            ev["coverage"]["exhaustive"] = False
    os.makedirs(os.path.join(HERE, "evidence"), exist_ok=True)
    with open(os.path.join(HERE, "evidence", "%s.json" % pid), "w") as f:
        json.dump(ev, f, indent=1, default=str)


COMMON_OUTSIDE = [
    "anything beyond the templates and free parameters listed under coverage.harnesses.*.bounds: more jobs, deeper "
    "nesting, other ways of building or re-using the objects",
    "several runs of one scheduler object (except the edge-free re-run harness of C04); a job placed in two schedulers",
    "flags (critical, forever) or timeouts changed while the scheduler runs; jobs calling their scheduler's API "
    "(list(), exit_jobs(), add()) from inside a run",
    "job classes other than AbstractJob subclasses and Job(coroutine) (e.g. PrintJob); jobs that swallow "
    "CancelledError or whose task ends cancelled by itself; shutdown handlers that raise",
    "non-integer windows; floating-point rounding of deadlines; event loops other than the virtual-time loop "
    "(validated against the stock loop on tie-free scenarios); threads",
]

COMMON_ASSUMPTIONS = [
    "CPython 3.12 and its asyncio primitives (Task, Future, wait, gather, Queue, sleep) are trusted; they are "
    "executed, not modelled",
    "VLoop (virtual-time loop) follows the event-loop contract: FIFO ready queue, a timer never fires before "
    "its deadline, equal deadlines in creation order unless ties are symbolic",
    "wall clock = loop clock (time.time / time.monotonic stubbed), exact integer arithmetic on durations",
    "z3 is trusted for sat/unsat; 'unknown' is reported as inconclusive",
]


def _z3_version():
    try:
        import z3
        return z3.get_version_string()
    except Exception:
        return "?"


if __name__ == "__main__":
    sys.exit(main())
