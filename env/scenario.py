"""Scenario space for C01-C14: tree templates, symbolic parameters, observation classes.

A scenario is a tree template (nested lists; 'J' = atomic job, [...] = nested Scheduler) plus
parameters drawn from the api (symbolic under the explorer, plain values on replay).
The library objects are the real ones (subclassed only to log events and to hash
deterministically).
"""
import asyncio
import itertools
import warnings

from env.vloop import VLoop, Deadlock, Horizon, install_clock_stub

install_clock_stub()            # before asynciojobs is imported

import asynciojobs                                              # noqa: E402
from asynciojobs import AbstractJob, Job, Scheduler, PureScheduler  # noqa: E402

import symx                                                     # noqa: E402
from symx import smax, sand, sor, snot, implies, ite, seq_     # noqa: E402

warnings.simplefilter("ignore")

TEMPLATES = {
    "F1": ["J"],
    "F2": ["J", "J"],
    "F3": ["J", "J", "J"],
    "F4": ["J", "J", "J", "J"],
    "F5": ["J", "J", "J", "J", "J"],
    "N11": ["J", ["J"]],
    "N12": ["J", ["J", "J"]],
    "N21": ["J", "J", ["J"]],
    "N22": ["J", "J", ["J", "J"]],
    "N13": ["J", ["J", "J", "J"]],
    "S12": [["J", "J"], "J"],
    "NN": [["J", "J"], ["J", "J"]],
    "N1N": ["J", ["J"], ["J"]],
    "D3": ["J", ["J", ["J"]]],
    "D3b": ["J", ["J", ["J", "J"]]],
    "E": ["J", []],
    "E2": [[], "J"],
    "E3": ["J", [], "J"],
    "S2": [["J", "J"]],
}


class Boom(Exception):
    """the exception a job raises on purpose (one instance per job)"""


class BoomRT(RuntimeError, Boom):
    """... of the RuntimeError family"""


class BoomBase(BaseException):
    """... deriving from BaseException only"""


def make_exc(name):
    """j0: no message; j1: RuntimeError family; j2: derives from BaseException only; j3: plain; and so on"""
    k = int(name[1:])
    if k % 4 == 0:
        return Boom()
    if k % 4 == 1:
        return BoomRT(name)
    if k % 4 == 2:
        return BoomBase(name)
    return Boom(name)


class Sentinel:
    def __init__(self, name):
        self.name = name

    def __repr__(self):
        return "<result of %s>" % self.name


class Ev:
    __slots__ = ("seq", "t", "kind", "who", "x")

    def __init__(self, seq, t, kind, who, x=None):
        self.seq, self.t, self.kind, self.who, self.x = seq, t, kind, who, x

    def __repr__(self):
        x = self.x
        if x is None or self.kind in ("start", "run_begin"):
            xs = ""
        else:
            xs = " " + repr(x)
        return "#%d t=%s %s(%s)%s" % (self.seq, self.t, self.kind, self.who, xs)


# ----------------------------------------------------------------------------- profile
class Profile:
    """Which parameters are free (symbolic) and which are pinned.  'free' / a fixed value."""
    defaults = dict(
        templates=("F3",),
        edges="free",           # 'free' | 'none' | 'chain'
        dur="free",             # 'free' | int
        raises=False,           # 'free' | False | True
        crit_job="free",        # 'free' | True | False
        forever=False,          # 'free' | False
        never=False,            # 'free' | False  (never-ending body; only meaningful if forever or timeout)
        lat=0,                  # 'free' | int     cancellation latency
        sd=0,                   # 'free' | int     shutdown handler duration
        sd_never=False,         # 'free' | False   the shutdown handler never returns by itself (honours cancellation)
        yield_jobs=None,        # None: pre/post apply to every job | tuple of job names they apply to
        pre=0, post=0,          # max number of zero-time yields before / after the sleep (choice)
        kind="vjob",            # 'vjob' | 'corojob' | 'free'
        window=None,            # 'free' | None | int      per scheduler
        window_scope="all",     # 'all' | 'top' | 'nested'
        timeout=None,           # 'free' | None | 'always' (always a timeout, free value)
        timeout_scope="all",    # 'all' | 'top' | 'nested'
        sdt=1,                  # 'free' | None | int | 'always'   shutdown_timeout
        crit_sched="free",      # nested schedulers' critical flag: 'free' | True | False
        forever_sched=False,    # 'free' | False
        verbose=False,          # 'free' | False | True
        perm="two",             # 'id' | 'two' (identity or reverse) | 'free' (all n!)
        top="free",             # 'free' | 'pure' | 'sched'
        top_crit=False,         # critical flag of a top-level Scheduler: 'free' | bool
        ties=False,             # equal-deadline timers in any order
        task_hash="zero",       # 'zero' | 'free'
        horizon=3000,
        construct="ctor",       # 'ctor': all jobs given to the constructor | 'add': first one, the others add()ed | 'free'
        window_via="ctor",      # 'ctor' | 'attr' (jobs_window assigned after construction) | 'free'
        all_forever_ok=False,   # allow a non-empty scheduler that owns no non-forever job (known finding KF-1)
    )

    def __init__(self, **kw):
        for k, v in self.defaults.items():
            setattr(self, k, kw.pop(k, v))
        if kw:
            raise TypeError("unknown profile keys %s" % sorted(kw))

    def describe(self):
        return {k: getattr(self, k) for k in self.defaults}


# ----------------------------------------------------------------------------- nodes
class Node:
    def __init__(self, name, is_sched, parent):
        self.name = name
        self.is_sched = is_sched
        self.parent = parent
        self.children = []
        self.reqs = []          # sibling nodes this one requires
        self.obj = None
        self.p = {}
        self.depth = 0 if parent is None else parent.depth + 1

    def __repr__(self):
        return self.name

    def descendants(self):
        for c in self.children:
            yield c
            if c.is_sched:
                yield from c.descendants()


# ----------------------------------------------------------------------------- observation classes
class _Hashed:
    def __hash__(self):
        return self._vh


def _make_body(run, node):
    p = node.p
    name = node.name

    async def body():
        run.log("start", name, asyncio.current_task())
        try:
            for _ in range(p["pre"]):
                await asyncio.sleep(0)
            if p["never"]:
                await run.loop.create_future()
            else:
                await asyncio.sleep(p["d"])
            for _ in range(p["post"]):
                await asyncio.sleep(0)
        except asyncio.CancelledError:
            run.log("cancel", name)
            lat = p["lat"]
            if p.get("lat_await", not (isinstance(lat, int) and lat == 0)):
                try:
                    await asyncio.sleep(lat)
                except asyncio.CancelledError:
                    run.log("cancel_again", name)
            run.log("cancel_done", name)
            raise
        if p["raises"]:
            run.log("raise", name)
            raise node.exc
        run.log("end", name)
        return node.sentinel
    return body


def _make_sd(run, node):
    p = node.p
    name = node.name

    async def sd():
        run.log("sd_begin", name)
        try:
            sdd = p["sd"]
            if p.get("sd_never"):
                await run.loop.create_future()
            elif p.get("sd_await", not (isinstance(sdd, int) and sdd == 0)):
                await asyncio.sleep(sdd)
        except asyncio.CancelledError:
            run.log("sd_cancel", name)
            raise
        run.log("sd_end", name)
    return sd


class VJob(_Hashed, AbstractJob):
    def __init__(self, run, node, vh, **kw):
        self._vh = vh
        self._run_ = run
        self._node = node
        self._body = _make_body(run, node)
        self._sd = _make_sd(run, node)
        AbstractJob.__init__(self, **kw)

    async def co_run(self):
        return await self._body()

    async def co_shutdown(self):
        await self._sd()


class VCoroJob(_Hashed, Job):
    """the package's coroutine-based Job, hashed deterministically"""

    def __init__(self, run, node, vh, **kw):
        self._vh = vh
        corun = _make_body(run, node)()
        cosd = _make_sd(run, node)()
        run.loose_coros += [corun, cosd]
        Job.__init__(self, corun, coshutdown=cosd, **kw)


def _sched_class(base, run):
    class VS(_Hashed, base):
        async def co_run(self):
            name = self._node.name
            run.log("run_begin", name, asyncio.current_task())
            try:
                r = await base.co_run(self)
            except asyncio.CancelledError:
                run.log("run_cancel", name)
                raise
            except (Exception, BoomBase) as e:
                run.log("run_exc", name, e)
                raise
            run.log("run_end", name, r)
            return r

        async def co_shutdown(self):
            name = self._node.name
            run.log("ssd_begin", name)
            try:
                r = await base.co_shutdown(self)
            except asyncio.CancelledError:
                run.log("ssd_cancel", name)
                raise
            run.log("ssd_end", name, r)
            return r
    VS.__name__ = "V" + base.__name__
    return VS


# ----------------------------------------------------------------------------- a run
class Run:
    def __init__(self, api, prof):
        self.api = api
        self.prof = prof
        self.events = []
        self._seq = 0
        self.loop = None
        self.top = None
        self.nodes = {}
        self.loose_coros = []
        self.outcome = None         # ('ret', value) | ('exc', e) | ('deadlock',) | ('horizon',)
        self.t_return = None
        self.seq_return = None
        self.tag = ""

    def nextseq(self):
        self._seq += 1
        return self._seq

    def log(self, kind, who, x=None):
        self.events.append(Ev(self.nextseq(), self.loop.now if self.loop else 0, kind, who, x))

    def on_task_cancel(self, task):
        job = getattr(task, "_job", None)
        node = getattr(job, "_node", None)
        if node is not None and not task.done():
            self.log("tcancel", node.name)

    # -- queries on the trace
    def evs(self, who, *kinds):
        return [e for e in self.events if e.who == who and e.kind in kinds]

    def first(self, who, *kinds):
        for e in self.events:
            if e.who == who and e.kind in kinds:
                return e
        return None

    def started(self, node):
        return self.first(node.name, "run_begin" if node.is_sched else "start")

    def finished(self, node):
        """the event at which node finished by itself (returned or raised), or None"""
        if node.is_sched:
            return self.first(node.name, "run_end", "run_exc")
        return self.first(node.name, "end", "raise")

    def over(self, node):
        """finished, or cancellation completed"""
        if node.is_sched:
            return self.first(node.name, "run_end", "run_exc", "run_cancel")
        return self.first(node.name, "end", "raise", "cancel_done")

    def cancelled(self, node):
        if node.is_sched:
            return self.first(node.name, "run_cancel")
        return self.first(node.name, "cancel")

    def all_nodes(self):
        yield self.top
        yield from self.top.descendants()

    def scheds(self):
        return [n for n in self.all_nodes() if n.is_sched]

    def jobs(self):
        return [n for n in self.all_nodes() if not n.is_sched]

    def dump(self):
        return [repr(e) for e in self.events]


def _param(api, spec, name, kind, lo=0):
    if spec == "free":
        return api.bool(name) if kind == "bool" else api.int(name, lo)
    return spec


PERMS = {n: list(itertools.permutations(range(n))) for n in range(0, 7)}


def build(api, prof, template_name, tag="", tweak=None):
    """builds the tree of library objects for one scenario; parameters are drawn from api
    with names suffixed by tag (so that twins can share or not share parameters)"""
    run = Run(api, prof)
    run.tag = tag
    counters = {"j": 0, "s": 0}
    template = TEMPLATES[template_name] if isinstance(template_name, str) else template_name

    def mk(tmpl, parent):
        if tmpl == "J":
            node = Node("j%d" % counters["j"], False, parent)
            counters["j"] += 1
        else:
            node = Node("s%d" % counters["s"], True, parent)
            counters["s"] += 1
            for sub in tmpl:
                node.children.append(mk(sub, node))
        run.nodes[node.name] = node
        return node

    top = mk(template, None)
    run.top = top
    run.tweak = tweak
    _draw(api, prof, run, top)
    return run


def _in_scope(scope, node):
    return scope == "all" or (scope == "top" and node.parent is None) or \
        (scope == "nested" and node.parent is not None)


def _draw(api, prof, run, top):
    """draw parameters and create the library objects, bottom-up"""
    t = run.tag

    def draw_job(node):
        n = node.name + t
        p = node.p
        p["d"] = _param(api, prof.dur, "d_" + n, "int")
        p["raises"] = _param(api, prof.raises, "x_" + n, "bool")
        p["crit"] = _param(api, prof.crit_job, "c_" + n, "bool")
        p["forever"] = _param(api, prof.forever, "f_" + n, "bool")
        p["never"] = _param(api, prof.never, "n_" + n, "bool")
        p["lat"] = _param(api, prof.lat, "lat_" + n, "int")
        p["sd"] = _param(api, prof.sd, "sd_" + n, "int")
        p["sd_never"] = _param(api, prof.sd_never, "sdn_" + n, "bool")
        # a free latency / handler duration always goes through asyncio.sleep(), also when its value is 0 (one
        # zero-time yield): the same code runs under the explorer and on replay
        p["lat_await"] = prof.lat == "free"
        p["sd_await"] = prof.sd == "free"
        ylds = prof.yield_jobs is None or node.name in prof.yield_jobs
        p["pre"] = api.choice("pre_" + n, prof.pre + 1) if prof.pre and ylds else 0
        p["post"] = api.choice("post_" + n, prof.post + 1) if prof.post and ylds else 0
        p["kind"] = (api.choice("k_" + n, 2) if prof.kind == "free"
                     else (1 if prof.kind == "corojob" else 0))
        # results: an opaque object, or (j1, j5, ...) a tuple; exceptions: see make_exc
        node.sentinel = Sentinel(node.name) if int(node.name[1:]) % 4 != 1 else (Sentinel(node.name), node.name)
        node.exc = make_exc(node.name)
        if run.tweak is not None:
            run.tweak(node)

    def draw_sched(node):
        n = node.name + t
        p = node.p
        k = len(node.children)
        if prof.window in ("free", "always") and _in_scope(prof.window_scope, node):
            if prof.window == "always" or api.flag("hasw_" + n):
                p["window"] = api.int("w_" + n, 0, k + 1)
            else:
                p["window"] = None
        elif _in_scope(prof.window_scope, node) and prof.window not in ("free", "always"):
            p["window"] = prof.window
        else:
            p["window"] = None
        if prof.timeout in ("free", "always") and _in_scope(prof.timeout_scope, node):
            if prof.timeout == "always" or api.flag("hasT_" + n):
                p["timeout"] = api.int("T_" + n, 0)
            else:
                p["timeout"] = None
        else:
            p["timeout"] = None if prof.timeout in ("free", "always") else prof.timeout
        if prof.sdt in ("free", "always"):
            if prof.sdt == "always" or api.flag("hasS_" + n):
                p["sdt"] = api.int("S_" + n, 0)
            else:
                p["sdt"] = None
        else:
            p["sdt"] = prof.sdt
        p["verbose"] = _param(api, prof.verbose, "v_" + n, "bool")
        if node.parent is None:
            if prof.top == "free":
                p["pure"] = api.flag("pure_" + n)
            else:
                p["pure"] = prof.top == "pure"
            p["crit"] = False if p["pure"] else _param(api, prof.top_crit, "c_" + n, "bool")
            p["forever"] = False
        else:
            p["pure"] = False
            p["crit"] = _param(api, prof.crit_sched, "c_" + n, "bool")
            p["forever"] = _param(api, prof.forever_sched, "f_" + n, "bool")
        # requirement edges among the children: bit e_a_b  <=> b requires a   (a before b)
        for i, a in enumerate(node.children):
            for b in node.children[i + 1:]:
                if prof.edges == "free":
                    on = api.flag("e_%s_%s%s" % (a.name, b.name, t))
                elif prof.edges == "chain":
                    on = node.children.index(b) == i + 1
                elif prof.edges == "fanin":
                    on = b is node.children[-1]
                elif prof.edges == "fanout":
                    on = i == 0
                elif prof.edges == "firstlast":
                    on = i == 0 and b is node.children[-1]
                elif prof.edges == "fanin2":
                    on = i < 2 and node.children.index(b) >= 2
                else:
                    on = False
                if on:
                    b.reqs.append(a)
        # iteration order of the job sets of this scheduler
        if prof.perm == "free":
            pi = PERMS[k][api.choice("pi_" + n, len(PERMS[k]))]
        elif prof.perm == "two" and k > 1:
            pi = PERMS[k][0] if api.choice("pi_" + n, 2) == 0 else PERMS[k][-1]
        else:
            pi = PERMS[k][0] if k in PERMS else tuple(range(k))
        p["pi"] = pi

    def create(node, vh):
        if not node.is_sched:
            draw_job(node)
            cls = VCoroJob if node.p["kind"] == 1 else VJob
            node.obj = cls(run, node, vh, critical=node.p["crit"], forever=node.p["forever"],
                           label=None if node.name == "j2" else node.name)
            node.obj._node = node
            return node.obj
        draw_sched(node)
        p = node.p
        objs = [create(c, p["pi"][i]) for i, c in enumerate(node.children)]
        for c in node.children:
            for r in c.reqs:
                c.obj.requires(r.obj)
        base = PureScheduler if p["pure"] else Scheduler
        cls = _sched_class(base, run)
        n = node.name + t
        via_attr = (prof.window_via == "attr" or (prof.window_via == "free" and api.flag("wattr_" + n))) \
            and p["window"] is not None
        by_add = (prof.construct == "add" or (prof.construct == "free" and api.flag("add_" + n))) and len(objs) > 1
        kw = dict(jobs_window=None if via_attr else p["window"], timeout=p["timeout"],
                  shutdown_timeout=p["sdt"], verbose=p["verbose"])
        if not p["pure"]:
            kw.update(critical=p["crit"], forever=p["forever"], label=node.name)
        obj = cls.__new__(cls)
        obj._vh = vh
        obj._node = node
        obj.__init__(*(objs[:1] if by_add else objs), **kw)
        if by_add:
            obj.add(objs[1])
            obj.update(objs[2:])
        if via_attr:
            obj.jobs_window = p["window"]
        node.obj = obj
        return obj

    create(top, 0)
    if not prof.all_forever_ok and (prof.forever == "free" or prof.forever_sched == "free"):
        for s in run.scheds():
            if s.children:
                api.assume(sor(*[snot(_truthy(m.p["forever"])) for m in s.children]))


def _truthy(x):
    return x if symx.is_sym(x) else bool(x)


def execute(run, on_loop=None):
    """runs the top-level scheduler through its synchronous run() on a fresh VLoop"""
    prof = run.prof
    api = run.api
    thm = api.choice("taskhash" + run.tag, 4) if prof.task_hash == "free" else 0
    loop = VLoop(seqgen=run.nextseq, horizon=prof.horizon,
                 tie_api=api if prof.ties else None, task_hash_mode=thm)
    run.loop = loop
    _LOOPS.append((loop, run))
    loop.on_task_cancel = run.on_task_cancel
    if on_loop is not None:
        on_loop(loop)
    asyncio.set_event_loop(loop)
    top = run.top.obj
    out = _Devnull()
    import sys
    saved = sys.stdout
    sys.stdout = out
    try:
        try:
            r = top.run()
            run.outcome = ("ret", r)
        except Deadlock:
            run.outcome = ("deadlock",)
        except Horizon:
            run.outcome = ("horizon",)
        except symx.PathAbort:
            raise
        except symx.Violation:
            raise
        except (Exception, BoomBase) as e:
            run.outcome = ("exc", e)
    finally:
        sys.stdout = saved
    run.t_return = loop.now
    run.seq_return = run.nextseq()
    run.n_tasks_at_return = len(loop.tasks)
    return run


class _Devnull:
    encoding = "utf-8"

    def write(self, s):
        return len(s)

    def flush(self):
        pass


_LOOPS = []


def _cleanup():
    while _LOOPS:
        loop, run = _LOOPS.pop()
        for c in run.loose_coros:
            try:
                c.close()
            except BaseException:   # noqa
                pass
        loop.dispose()
        run.events = []
        run.nodes = {}
    try:
        asyncio.set_event_loop(None)
    except Exception:
        pass


symx.register_cleanup(_cleanup)


class CachedAPI:
    """memoizes draws by name so that two scenarios built in the same path share their parameters"""

    def __init__(self, api):
        self._api = api
        self._memo = {}
        self.mode = api.mode

    def _get(self, kind, name, *a):
        key = name
        if key not in self._memo:
            self._memo[key] = getattr(self._api, kind)(name, *a)
        return self._memo[key]

    def int(self, name, lo=None, hi=None):
        return self._get("int", name, lo, hi)

    def bool(self, name):
        return self._get("bool", name)

    def flag(self, name):
        return self._get("flag", name)

    def choice(self, name, k):
        return self._get("choice", name, k)

    def __getattr__(self, item):
        return getattr(self._api, item)


def execute_shutdown_only(run):
    """explicit shutdown() of a tree that never ran"""
    prof = run.prof
    loop = VLoop(seqgen=run.nextseq, horizon=prof.horizon, tie_api=run.api if prof.ties else None)
    run.loop = loop
    _LOOPS.append((loop, run))
    asyncio.set_event_loop(loop)
    import sys
    saved = sys.stdout
    sys.stdout = _Devnull()
    try:
        try:
            r = run.top.obj.shutdown()
            run.outcome = ("ret", r)
        except Deadlock:
            run.outcome = ("deadlock",)
        except Horizon:
            run.outcome = ("horizon",)
        except (symx.PathAbort, symx.Violation):
            raise
        except Exception as e:
            run.outcome = ("exc", e)
    finally:
        sys.stdout = saved
    run.t_return = loop.now
    run.seq_return = run.nextseq()
    return run


def flatten(run, api):
    """the flat twin of a nested scenario: same atomic jobs (same parameters), entry jobs of a nested
    scheduler inherit its requirements, successors of a nested scheduler require all its jobs"""
    flat = Run(api, run.prof)
    top = Node("s0", True, None)
    top.p = dict(run.top.p)
    flat.top = top
    flat.nodes["s0"] = top
    clones = {}

    def atoms(n):
        if not n.is_sched:
            return [n]
        out = []
        for c in n.children:
            out += atoms(c)
        return out

    def exits(n):
        a = atoms(n)
        return a if a else inherited(n)

    def inherited(n):
        R = []
        for r in n.reqs:
            R += exits(r)
        if not n.reqs and n.parent is not None and n.parent.parent is not None:
            R += inherited(n.parent)
        return R

    for j in atoms(run.top):
        c = Node(j.name, False, top)
        c.p = j.p
        c.sentinel = Sentinel(j.name) if int(j.name[1:]) % 4 != 1 else (Sentinel(j.name), j.name)
        c.exc = make_exc(j.name)
        clones[j.name] = c
        top.children.append(c)
        flat.nodes[c.name] = c
    for j in atoms(run.top):
        need = []
        for r in inherited(j):
            if clones[r.name] not in need:
                need.append(clones[r.name])
        clones[j.name].reqs = need
    k = len(top.children)
    objs = []
    for i, c in enumerate(top.children):
        c.obj = VJob(flat, c, i, critical=c.p["crit"], forever=c.p["forever"], label=c.name)
        c.obj._node = c
        objs.append(c.obj)
    for c in top.children:
        for r in c.reqs:
            c.obj.requires(r.obj)
    base = PureScheduler if top.p["pure"] else Scheduler
    cls = _sched_class(base, flat)
    kw = dict(jobs_window=None, timeout=None, shutdown_timeout=top.p["sdt"], verbose=False)
    if not top.p["pure"]:
        kw.update(critical=top.p["crit"], forever=False, label="s0")
    obj = cls.__new__(cls)
    obj._vh = 0
    obj._node = top
    obj.__init__(*objs, **kw)
    top.obj = obj
    return flat


def redraw_for_rerun(api, run, tag="b"):
    """second run of the *same* objects: new durations / outcomes for the jobs, a new timeout for the top
    scheduler (attributes are public).  Only meaningful for schedulers without requirement edges."""
    prof = run.prof
    for j in run.jobs():
        n = j.name + tag
        j.p["d"] = _param(api, prof.dur, "d_" + n, "int")
        j.p["raises"] = _param(api, prof.raises, "x_" + n, "bool")
    top = run.top
    if prof.timeout in ("free", "always"):
        if api.flag("hasT_" + top.name + tag):
            top.p["timeout"] = api.int("T_" + top.name + tag, 0)
        else:
            top.p["timeout"] = None
        top.obj.timeout = top.p["timeout"]
    run.first_run_events = run.events
    run.events = []
