"""Conformance self-test of the virtual-time loop: tie-free scenarios are run once on VLoop (virtual
integer time) and once on the stock asyncio event loop (durations x UNIT seconds of real time); the
sequences of events (kind, who) and the verdicts must be identical.  This validates the one component
the scheduling checks trust beyond CPython itself.

Tie-freeness: job durations are distinct even powers (2, 4, 8, ...), timeouts and latencies are odd, so no
two timers ever share a deadline; within one instant both loops are FIFO.
"""
import asyncio
import random
import sys
import time

from symx.core import ConcreteAPI
from env import scenario as S

UNIT = 0.012


class _RealClock:
    """stands for run.loop when the stock loop is used: .now is real loop time in units"""

    def __init__(self, loop):
        self._loop = loop
        self._t0 = loop.time()
        self.tasks = []

    @property
    def now(self):
        return round((self._loop.time() - self._t0) / UNIT, 2)

    def create_future(self):
        return self._loop.create_future()


class ScaledAPI(ConcreteAPI):
    """int parameters are durations: scaled to seconds for the real loop"""

    def __init__(self, values, unit):
        super().__init__(values)
        self.unit = unit

    def int(self, name, lo=None, hi=None):
        v = self.values.get(name, lo if lo is not None else 0)
        if name.startswith("w_") or v == 0:
            return int(v)
        return v * self.unit


def scenarios(seed=1, n=24):
    rnd = random.Random(seed)
    out = []
    templates = ["F3", "F3", "N12", "N12", "D3", "F4", "N22"]
    for k in range(n):
        t = templates[k % len(templates)]
        prof = S.Profile(templates=(t,), raises="free", crit_job="free", forever="free", window="free",
                         timeout="free", lat="free", sd="free", sdt="free", crit_sched="free", perm="id",
                         top="sched", all_forever_ok=False)
        vals = {}
        nj = sum(1 for c in str(S.TEMPLATES[t]) if c == "J")
        ns = str(S.TEMPLATES[t]).count("[")
        durs = [2 ** (i + 1) for i in range(nj)]
        rnd.shuffle(durs)
        for i in range(nj):
            vals["d_j%d" % i] = durs[i]
            vals["x_j%d" % i] = rnd.random() < 0.25
            vals["c_j%d" % i] = rnd.random() < 0.4
            vals["f_j%d" % i] = rnd.random() < 0.2 and i > 0
            vals["lat_j%d" % i] = rnd.choice([0, 0, 1, 3])
            vals["sd_j%d" % i] = rnd.choice([0, 0, 1, 5])
        for s in range(ns):
            vals["hasw_s%d" % s] = rnd.random() < 0.3
            vals["w_s%d" % s] = rnd.choice([1, 2])
            vals["hasT_s%d" % s] = rnd.random() < 0.35
            vals["T_s%d" % s] = rnd.choice([3, 7, 11, 21])
            vals["hasS_s%d" % s] = rnd.random() < 0.5
            vals["S_s%d" % s] = rnd.choice([3, 9])
            vals["c_s%d" % s] = rnd.random() < 0.5
        for a in range(nj):
            for b in range(a + 1, nj):
                vals["e_j%d_j%d" % (a, b)] = rnd.random() < 0.4
        out.append((t, prof, vals))
    return out


def run_virtual(t, prof, vals):
    api = ConcreteAPI(vals)
    run = S.build(api, prof, t)
    S.execute(run)
    ev = [(e.kind, e.who) for e in run.events if e.kind != "tcancel"]
    out = _outcome(run)
    ties = run.loop.ties_seen
    S._cleanup()
    return ev, out, ties


def _outcome(run):
    o = run.outcome
    if o[0] == "ret":
        return ("ret", o[1])
    if o[0] == "exc":
        return ("exc", type(o[1]).__name__, str(o[1]))
    return o


def run_real(t, prof, vals):
    api = ScaledAPI(vals, UNIT)
    run = S.build(api, prof, t)
    loop = asyncio.new_event_loop()
    asyncio.set_event_loop(loop)
    run.loop = _RealClock(loop)
    saved = sys.stdout
    sys.stdout = S._Devnull()
    try:
        try:
            r = loop.run_until_complete(asyncio.wait_for(run.top.obj.co_run(), timeout=30))
            run.outcome = ("ret", r)
        except asyncio.TimeoutError:
            run.outcome = ("hang",)
        except (Exception, S.BoomBase) as e:
            run.outcome = ("exc", e)
    finally:
        n_at_return = len(run.events)
        sys.stdout = saved
        try:
            pend = [x for x in asyncio.all_tasks(loop) if not x.done()]
            for x in pend:
                x.cancel()
            if pend:
                loop.run_until_complete(asyncio.gather(*pend, return_exceptions=True))
        except Exception:
            pass
        loop.close()
        asyncio.set_event_loop(None)
    ev = [(e.kind, e.who) for e in run.events[:n_at_return]]
    return ev, _outcome(run)


_SETORDER = ("cancel", "cancel_done", "cancel_again", "sd_cancel", "run_cancel", "ssd_cancel")


def canon(ev):
    """cancellations sent in one sweep over a *set* of tasks come in set-iteration order, which the stock
    loop does not fix (tasks hash by address): maximal runs of cancellation events are compared as multisets"""
    out, run_ = [], []
    for e in ev:
        if e[0] in _SETORDER:
            run_.append(e)
        else:
            out += sorted(run_)
            run_ = []
            out.append(e)
    return out + sorted(run_)


def run_conformance(seed=1, n=24):
    global UNIT
    t0 = time.time()
    res = {"scenarios": 0, "agree": 0, "disagreements": [], "unit_s": UNIT}
    for t, prof, vals in scenarios(seed, n):
        try:
            ev_v, out_v, ties = run_virtual(t, prof, vals)
        except SystemExit:
            S._cleanup()
            continue            # not admissible (a scheduler owning only forever jobs)
        if ties:
            res["skipped_ties"] = res.get("skipped_ties", 0) + 1
            continue            # two timers share a deadline: their order is unspecified
        if out_v[0] in ("deadlock", "horizon"):
            continue
        ev_v = canon(ev_v)
        unit0 = UNIT
        try:
            for attempt in range(3):
                # real time is noisy on a loaded machine: a disagreement must survive two retries with a
                # 4x and 16x coarser time unit before it is reported
                ev_r, out_r = run_real(t, prof, vals)
                ev_r = canon(ev_r)
                if ev_v == ev_r and out_v == out_r:
                    break
                res["retries"] = res.get("retries", 0) + 1
                UNIT = UNIT * 4
        finally:
            UNIT = unit0
        res["scenarios"] += 1
        if ev_v == ev_r and out_v == out_r:
            res["agree"] += 1
        else:
            k = 0
            while k < min(len(ev_v), len(ev_r)) and ev_v[k] == ev_r[k]:
                k += 1
            res["disagreements"].append({"template": t, "values": {a: b for a, b in vals.items() if b},
                                         "first_difference_at": k,
                                         "virtual": [list(x) for x in ev_v[max(0, k - 3):k + 4]],
                                         "real": [list(x) for x in ev_r[max(0, k - 3):k + 4]],
                                         "outcomes": [repr(out_v), repr(out_r)]})
    res["wall_s"] = round(time.time() - t0, 1)
    return res


if __name__ == "__main__":
    import json
    r = run_conformance(int(sys.argv[1]) if len(sys.argv) > 1 else 1, int(sys.argv[2]) if len(sys.argv) > 2 else 24)
    print(json.dumps(r, indent=1))
    sys.exit(0 if not r["disagreements"] else 1)
