"""VLoop: a virtual-time asyncio event loop (pure Python), structured like
BaseEventLoop._run_once.  Deadlines may be plain ints or symx.SInt terms: every comparison is
an ordinary Python operator, so with symbolic deadlines each one is a solver-decided branch.

asyncio itself (Task, Future, wait, gather, Queue, sleep) is the interpreter's own.
"""
import asyncio
import time
from asyncio import events

# ---------------------------------------------------------------- clock stub
_REAL_TIME = time.time
_REAL_MONO = time.monotonic
_ACTIVE = [None]


def _vtime():
    loop = _ACTIVE[0]
    return loop.now if loop is not None else _REAL_TIME()


def _vmono():
    loop = _ACTIVE[0]
    return loop.now if loop is not None else _REAL_MONO()


def install_clock_stub():
    """wall clock = loop clock while a VLoop runs (must be called before asynciojobs is imported
    to be robust against ``from time import time``)"""
    time.time = _vtime
    time.monotonic = _vmono


class Deadlock(Exception):
    """main future not done, nothing ready, no live timer: a definite hang (there is no I/O)"""


class Horizon(Exception):
    """too many loop iterations in one run: candidate livelock"""


class VTask(asyncio.Task):
    def __init__(self, coro, *, loop, name=None, context=None, vseq=0, vhash=0):
        # set before super().__init__: Task.__init__ registers (hashes) the task right away
        self._vseq = vseq
        self._vhash = vhash
        super().__init__(coro, loop=loop, name=name, context=context)
        self._log_destroy_pending = False

    def __hash__(self):
        return self._vhash

    def cancel(self, msg=None):
        hook = self.get_loop().on_task_cancel
        if hook is not None:
            hook(self)
        return super().cancel(msg)


class VLoop(asyncio.AbstractEventLoop):
    def __init__(self, seqgen=None, horizon=5000, tie_api=None, task_hash_mode=0):
        self.now = 0
        self.ready = []
        self.timers = []
        self.tasks = []             # every task ever created, in creation order
        self.coros = []             # their coroutines (for teardown)
        self.iterations = 0
        self.horizon = horizon
        self.on_quiescent = []
        self.exc_contexts = []
        self.tie_api = tie_api
        self.n_ties = 0
        self.task_hash_mode = task_hash_mode
        self._seqgen = seqgen or (lambda: 0)
        self._running = False
        self.on_task_created = None
        self.on_task_cancel = None
        self.advances = 0
        self.ties_seen = 0

    # -- the event-loop contract used by asyncio.sleep / wait / gather / Queue / Task / Future
    def time(self):
        return self.now

    def get_debug(self):
        return False

    def is_running(self):
        return self._running

    def is_closed(self):
        return False

    def call_soon(self, callback, *args, context=None):
        h = asyncio.Handle(callback, args, self, context)
        self.ready.append(h)
        return h

    call_soon_threadsafe = call_soon

    def call_later(self, delay, callback, *args, context=None):
        return self.call_at(self.now + delay, callback, *args, context=context)

    def call_at(self, when, callback, *args, context=None):
        h = asyncio.TimerHandle(when, callback, args, self, context)
        h._scheduled = True
        self.timers.append(h)
        return h

    def _timer_handle_cancelled(self, handle):
        pass

    def create_future(self):
        return asyncio.Future(loop=self)

    def create_task(self, coro, *, name=None, context=None):
        n = len(self.tasks)
        mode = self.task_hash_mode
        vhash = n if mode == 0 else (997 - n if mode == 1 else (n * 7) % 61 if mode == 2 else (n * 5 + 3) % 31)
        t = VTask(coro, loop=self, name=name, context=context, vseq=self._seqgen(), vhash=vhash)
        self.tasks.append(t)
        self.coros.append(coro)
        if self.on_task_created is not None:
            self.on_task_created(t)
        return t

    def call_exception_handler(self, context):
        self.exc_contexts.append(context)

    def default_exception_handler(self, context):
        self.exc_contexts.append(context)

    # -- running
    def run_until_complete(self, future):
        if asyncio.iscoroutine(future):
            future = self.create_task(future)
        prev = _ACTIVE[0]
        _ACTIVE[0] = self
        self._running = True
        events._set_running_loop(self)
        try:
            while not future.done():
                self.run_once()
        finally:
            events._set_running_loop(None)
            self._running = False
            _ACTIVE[0] = prev
        return future.result()

    def run_idle(self, max_iterations=2000):
        """lets the loop run on until nothing is ready and no timer is armed;
        returns the number of iterations done"""
        prev = _ACTIVE[0]
        _ACTIVE[0] = self
        self._running = True
        events._set_running_loop(self)
        n = 0
        try:
            while n < max_iterations:
                self.timers = [h for h in self.timers if not h._cancelled]
                if not self.ready and not self.timers:
                    break
                self.run_once()
                n += 1
        finally:
            events._set_running_loop(None)
            self._running = False
            _ACTIVE[0] = prev
        return n

    def run_once(self):
        self.iterations += 1
        if self.iterations > self.horizon:
            raise Horizon("more than %d loop iterations" % self.horizon)
        live = [h for h in self.timers if not h._cancelled]
        self.timers = live
        if not self.ready:
            if not live:
                for cb in self.on_quiescent:
                    cb()
                raise Deadlock("nothing ready and no timer armed")
            first = live[0]
            for h in live[1:]:
                if h._when < first._when:
                    first = h
            if first._when > self.now:
                for cb in self.on_quiescent:
                    cb()
                self.now = first._when
                self.advances += 1
        due, rest = [], []
        for h in live:
            if h._when <= self.now:
                due.append(h)
            else:
                rest.append(h)
        self.timers = rest
        if len(due) > 1:
            due = self._order(due)
        for h in due:
            h._scheduled = False
        self.ready.extend(due)
        batch, self.ready = self.ready, []
        for h in batch:
            if not h._cancelled:
                h._run()

    def _order(self, due):
        """by deadline; equal deadlines in creation order, or -- tie_api set -- in any order
        (one fresh symbolic boolean per swap)"""
        out = []
        api = self.tie_api
        for h in due:
            i = len(out)
            while i > 0:
                prev = out[i - 1]
                if h._when < prev._when:
                    i -= 1
                    continue
                if api is None and type(h._when) in (int, float) and type(prev._when) in (int, float) \
                        and h._when == prev._when:
                    self.ties_seen += 1
                if api is not None and h._when == prev._when:
                    self.n_ties += 1
                    if api.flag("tie%d" % self.n_ties):
                        i -= 1
                        continue
                break
            out.insert(i, h)
        return out

    # -- teardown (called in dead mode)
    def dispose(self):
        for coro in self.coros:
            try:
                coro.close()
            except BaseException:       # noqa
                pass
        for h in self.ready + self.timers:
            try:
                h.cancel()
            except BaseException:       # noqa
                pass
        self.ready = []
        self.timers = []
        self.tasks = []
        self.coros = []
        self.on_quiescent = []
        self.on_task_created = None
        self.on_task_cancel = None
        try:
            asyncio.tasks._current_tasks.pop(self, None)
        except Exception:
            pass
