#!/bin/sh
# setup_cmd: creates /verif/.venv, an offline overlay on /venv (the interpreter the test-suite uses)
# with z3-solver, crosshair-tool and jsonschema from the local wheelhouse.  Idempotent.
set -e
HERE="$(cd "$(dirname "$0")" && pwd)"
VENV="$HERE/.venv"
WHEELS=/opt/veriftools/wheels
if [ -x "$VENV/bin/python" ] && "$VENV/bin/python" -c "import z3, crosshair, jsonschema" >/dev/null 2>&1; then
    exit 0
fi
rm -rf "$VENV"
/venv/bin/python -m venv "$VENV"
SP="$("$VENV/bin/python" -c 'import sysconfig; print(sysconfig.get_paths()["purelib"])')"
# see /venv's packages (pytest, ...) without touching /venv
echo "import site; site.addsitedir('/venv/lib/python3.12/site-packages')" > "$SP/verif_overlay.pth"
PIP_NO_INDEX=1 "$VENV/bin/python" -m pip install -q --no-index --find-links "$WHEELS" \
    z3-solver crosshair-tool jsonschema >/dev/null
"$VENV/bin/python" -c "import z3, crosshair, jsonschema; print('verif venv ready: z3', z3.get_version_string())"
