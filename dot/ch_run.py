"""runs CrossHair on one harness of dot/ch_labels.py; prints one JSON line
usage: ch_run.py <function> <exact label length | -N for 'at most N'> <per_condition_timeout> [twin]"""
import json
import sys
import time

from crosshair.core_and_libs import analyze_function, run_checkables
from crosshair.options import AnalysisOptionSet, AnalysisKind

import dot.ch_labels as M


def main():
    fname, length, timeout = sys.argv[1], int(sys.argv[2]), float(sys.argv[3])
    if length >= 0:
        M.EXACT = length
    else:
        M.EXACT = -1
        M.MAXLEN = -length
    fn = getattr(M, fname)
    opts = AnalysisOptionSet(per_condition_timeout=timeout, per_path_timeout=max(10.0, timeout / 10),
                             max_uninteresting_iterations=10 ** 9, report_all=True,
                             analysis_kind=[AnalysisKind.PEP316])
    t0 = time.time()
    msgs = list(run_checkables(analyze_function(fn, opts)))
    out = {"function": fname, "label_length": length, "seconds": round(time.time() - t0, 1),
           "messages": [{"state": m.state.name, "message": m.message, "line": m.line} for m in msgs]}
    print(json.dumps(out))


if __name__ == "__main__":
    main()
