"""An independent parser for the subset of the DOT language that asynciojobs emits:
digraph / subgraph / graph-node-edge attribute statements / node statements / edge statements /
ID '=' ID, with quoted IDs (only backslash-quote is an escape inside double quotes), numerals and
alphanumeric IDs, optional ';' separators, comments.  Written from the DOT grammar
(https://graphviz.org/doc/info/lang.html), not from the package's code.
"""


class DotSyntaxError(Exception):
    pass


class Tok:
    __slots__ = ("kind", "val", "pos")

    def __init__(self, kind, val, pos):
        self.kind, self.val, self.pos = kind, val, pos

    def __repr__(self):
        return "%s(%r)" % (self.kind, self.val)


def tokenize(text):
    toks = []
    i, n = 0, len(text)
    while i < n:
        ch = text[i]
        if ch in " \t\r\n":
            i += 1
            continue
        if text.startswith("//", i) or (ch == "#" and (i == 0 or text[i - 1] == "\n")):
            while i < n and text[i] != "\n":
                i += 1
            continue
        if text.startswith("/*", i):
            j = text.find("*/", i + 2)
            if j < 0:
                raise DotSyntaxError("unterminated comment at %d" % i)
            i = j + 2
            continue
        if ch == '"':
            j = i + 1
            val = []
            while True:
                if j >= n:
                    raise DotSyntaxError("unterminated string starting at %d" % i)
                c = text[j]
                if c == "\\" and j + 1 < n and text[j + 1] == '"':
                    val.append('"')
                    j += 2
                    continue
                if c == "\\" and j + 1 < n and text[j + 1] == "\n":
                    j += 2          # line continuation
                    continue
                if c == '"':
                    break
                val.append(c)
                j += 1
            toks.append(Tok("qid", "".join(val), i))
            i = j + 1
            continue
        if text.startswith("->", i):
            toks.append(Tok("->", "->", i))
            i += 2
            continue
        if text.startswith("--", i):
            raise DotSyntaxError("undirected edge in a digraph at %d" % i)
        if ch in "{}[]=;,:":
            toks.append(Tok(ch, ch, i))
            i += 1
            continue
        if ch.isalpha() or ch == "_" or ord(ch) >= 128:
            j = i
            while j < n and (text[j].isalnum() or text[j] == "_" or ord(text[j]) >= 128):
                j += 1
            toks.append(Tok("id", text[i:j], i))
            i = j
            continue
        if ch.isdigit() or ch in "-.":
            j = i
            if text[j] == "-":
                j += 1
            k = j
            while j < n and text[j].isdigit():
                j += 1
            if j < n and text[j] == ".":
                j += 1
                while j < n and text[j].isdigit():
                    j += 1
            if j == k or text[k:j] == ".":
                raise DotSyntaxError("bad numeral at %d" % i)
            if j < n and (text[j].isalpha() or text[j] == "_"):
                raise DotSyntaxError("numeral runs into identifier at %d" % i)
            toks.append(Tok("id", text[i:j], i))
            i = j
            continue
        if ch == "<":
            raise DotSyntaxError("HTML string at %d (not in the subset)" % i)
        raise DotSyntaxError("unexpected character %r at %d" % (ch, i))
    return toks


KEYWORDS = {"digraph", "graph", "subgraph", "node", "edge", "strict"}


class Graph:
    def __init__(self, name, parent=None):
        self.name = name
        self.parent = parent
        self.attrs = {}         # graph attributes (graph [...] and a=b statements)
        self.nodes = {}         # id -> attrs, for node statements appearing directly in this (sub)graph
        self.node_stmts = []    # (id, attrs) in order, duplicates kept
        self.subgraphs = []
        self.edges = []         # (src, dst, attrs) for edge statements appearing directly here

    def all_subgraphs(self):
        for s in self.subgraphs:
            yield s
            yield from s.all_subgraphs()

    def all_node_stmts(self):
        for x in self.node_stmts:
            yield (self, x[0], x[1])
        for s in self.subgraphs:
            yield from s.all_node_stmts()

    def all_edges(self):
        for e in self.edges:
            yield (self,) + e
        for s in self.subgraphs:
            yield from s.all_edges()


class Parser:
    def __init__(self, text):
        self.toks = tokenize(text)
        self.i = 0

    def peek(self, k=0):
        return self.toks[self.i + k] if self.i + k < len(self.toks) else Tok("eof", None, -1)

    def next(self):
        t = self.peek()
        self.i += 1
        return t

    def expect(self, kind, val=None):
        t = self.next()
        if t.kind != kind or (val is not None and t.val != val):
            raise DotSyntaxError("expected %s %s, got %r at %d" % (kind, val or "", t, t.pos))
        return t

    def is_id(self, t):
        return t.kind == "qid" or (t.kind == "id" and t.val.lower() not in KEYWORDS)

    def parse(self):
        t = self.next()
        if t.kind == "id" and t.val.lower() == "strict":
            t = self.next()
        if not (t.kind == "id" and t.val.lower() == "digraph"):
            raise DotSyntaxError("expected 'digraph', got %r" % t)
        name = None
        if self.is_id(self.peek()):
            name = self.next().val
        g = Graph(name)
        self.expect("{")
        self.stmt_list(g)
        self.expect("}")
        if self.peek().kind != "eof":
            raise DotSyntaxError("trailing input after the graph: %r" % self.peek())
        return g

    def stmt_list(self, g):
        while self.peek().kind not in ("}", "eof"):
            self.stmt(g)
            if self.peek().kind == ";":
                self.next()

    def attr_list(self):
        attrs = {}
        while self.peek().kind == "[":
            self.next()
            while self.peek().kind != "]":
                k = self.next()
                if not self.is_id(k):
                    raise DotSyntaxError("attribute name expected, got %r at %d" % (k, k.pos))
                self.expect("=")
                v = self.next()
                if not self.is_id(v):
                    raise DotSyntaxError("attribute value expected, got %r at %d" % (v, v.pos))
                if k.val in attrs:
                    raise DotSyntaxError("attribute %s given twice" % k.val)
                attrs[k.val] = v.val
                if self.peek().kind in (",", ";"):
                    self.next()
            self.expect("]")
        return attrs

    def stmt(self, g):
        t = self.peek()
        if t.kind == "id" and t.val.lower() == "subgraph":
            self.next()
            name = None
            if self.is_id(self.peek()):
                name = self.next().val
            sub = Graph(name, g)
            self.expect("{")
            self.stmt_list(sub)
            self.expect("}")
            g.subgraphs.append(sub)
            if self.peek().kind == "->":
                raise DotSyntaxError("edge from a subgraph (not in the subset)")
            return
        if t.kind == "id" and t.val.lower() in ("graph", "node", "edge"):
            self.next()
            attrs = self.attr_list()
            if t.val.lower() == "graph":
                for k, v in attrs.items():
                    g.attrs[k] = v
            else:
                raise DotSyntaxError("default %s attributes are not in the subset" % t.val)
            return
        if t.kind == "{":
            raise DotSyntaxError("anonymous subgraph (not in the subset)")
        if not self.is_id(t):
            raise DotSyntaxError("statement expected, got %r at %d" % (t, t.pos))
        first = self.next()
        if self.peek().kind == "=":
            self.next()
            v = self.next()
            if not self.is_id(v):
                raise DotSyntaxError("value expected after '='")
            g.attrs[first.val] = v.val
            return
        if self.peek().kind == ":":
            raise DotSyntaxError("ports are not in the subset")
        if self.peek().kind == "->":
            chain = [first.val]
            while self.peek().kind == "->":
                self.next()
                nxt = self.next()
                if not self.is_id(nxt):
                    raise DotSyntaxError("node id expected after '->', got %r" % nxt)
                chain.append(nxt.val)
            attrs = self.attr_list()
            for a, b in zip(chain, chain[1:]):
                g.edges.append((a, b, dict(attrs)))
            return
        attrs = self.attr_list()
        g.node_stmts.append((first.val, attrs))
        g.nodes[first.val] = attrs


def parse(text):
    return Parser(text).parse()
