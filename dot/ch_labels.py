"""CrossHair harnesses for C20-L (labels): symbolic Unicode strings through the real quoting code.

Each function's postcondition is searched for a counterexample by CrossHair (symbolic execution with z3).
The oracle is an independent lexer of DOT attribute lists (inside double quotes only \\" is an escape).
"""
from asynciojobs import AbstractJob, Scheduler
from asynciojobs.dotstyle import DotStyle

BS = chr(92)
MAXLEN = 3
EXACT = -1          # >= 0: the label has exactly that many characters (all offsets are concrete then)


def _len_ok(label):
    return len(label) == EXACT if EXACT >= 0 else len(label) <= MAXLEN


def lex_attr_list(text):
    """independent lexer: key=value pairs separated by commas; values are double-quoted strings in which
    only backslash-quote is an escape.  Returns a list of (key, value) or None if the text is not a well
    formed attribute list."""
    out = []
    i, n = 0, len(text)
    while i < n:
        j = i
        while j < n and (text[j].isalnum() or text[j] == "_"):
            j += 1
        if j == i or j >= n or text[j] != "=":
            return None
        key = text[i:j]
        j += 1
        if j >= n or text[j] != '"':
            return None
        j += 1
        val = []
        while True:
            if j >= n:
                return None
            ch = text[j]
            if ch == BS and j + 1 < n and text[j + 1] == '"':
                val.append('"')
                j += 2
                continue
            if ch == '"':
                j += 1
                break
            val.append(ch)
            j += 1
        out.append((key, "".join(val)))
        if j == n:
            break
        if text[j] != ",":
            return None
        i = j + 1
        if i >= n:
            return None
    return out


class _J(AbstractJob):
    pass


def protect_roundtrip(label: str) -> bool:
    """
    pre: _len_ok(label)
    pre: BS not in label
    post: _ is True
    """
    got = lex_attr_list("label=" + DotStyle.protect(label))
    return got == [("label", label)]


def job_style(label: str, critical: bool, forever: bool) -> bool:
    """
    pre: _len_ok(label)
    pre: BS not in label
    post: _ is True
    """
    job = _J(label=label, critical=critical, forever=forever)
    job._sched_id = "7"
    got = lex_attr_list(repr(job.dot_style()))
    if got is None:
        return False
    d = dict(got)
    if len(d) != len(got):
        return False
    want = {"label": "7: " + label, "shape": "box",
            "style": "rounded,dashed" if forever else "rounded",
            "penwidth": "2" if critical else "0.5"}
    if critical:
        want["color"] = "red"
    return d == want


def cluster_style(label: str, critical: bool, forever: bool) -> bool:
    """
    pre: _len_ok(label)
    pre: BS not in label
    post: _ is True
    """
    sched = Scheduler(label=label, critical=critical, forever=forever)
    sched._sched_id = "7"
    got = lex_attr_list(repr(sched.dot_style()))
    if got is None:
        return False
    d = dict(got)
    if len(d) != len(got):
        return False
    want = {"label": "7: " + label, "shape": "box",
            "style": "dashed" if forever else "",
            "penwidth": "2" if critical else "0.5"}
    if critical:
        want["color"] = "red"
    return d == want


CRIT = False
FOREVER = False


def job_style_fixed(label: str) -> bool:
    """
    pre: _len_ok(label)
    pre: BS not in label
    post: _ is True
    """
    return job_style(label, CRIT, FOREVER)


def cluster_style_fixed(label: str) -> bool:
    """
    pre: _len_ok(label)
    pre: BS not in label
    post: _ is True
    """
    return cluster_style(label, CRIT, FOREVER)
