"""CrossHair harnesses for C20-L (labels): symbolic Unicode strings through the real quoting code.

Each function's postcondition is searched for a counterexample by CrossHair (symbolic execution with z3).
The oracle is an independent lexer of DOT attribute lists (inside double quotes only \\" is an escape).
"""
from asynciojobs import AbstractJob, Scheduler
from asynciojobs.dotstyle import DotStyle

BS = chr(92)
MAXLEN = 3
EXACT = -1          # >= 0: the label has exactly that many characters (all offsets are concrete then)


def _len_ok(label):
    return len(label) == EXACT if EXACT >= 0 else len(label) <= MAXLEN


def lex_attr_list(text):
    """independent lexer: key=value pairs separated by commas; values are double-quoted strings in which
    only backslash-quote is an escape.  Returns a list of (key, value) or None if the text is not a well
    formed attribute list."""
    out = []
    i, n = 0, len(text)
    while i < n:
        j = i
        while j < n and (text[j].isalnum() or text[j] == "_"):
            j += 1
        if j == i or j >= n or text[j] != "=":
            return None
        key = text[i:j]
        j += 1
        if j >= n or text[j] != '"':
            return None
        j += 1
        val = []
        while True:
            if j >= n:
                return None
            ch = text[j]
            if ch == BS and j + 1 < n and text[j + 1] == '"':
                val.append('"')
                j += 2
                continue
            if ch == '"':
                j += 1
                break
            val.append(ch)
            j += 1
        out.append((key, "".join(val)))
        if j == n:
            break
        if text[j] != ",":
            return None
        i = j + 1
        if i >= n:
            return None
    return out


def scan_quoted(text, j):
    """text[j] is the character after an opening double quote; scans a DOT double-quoted string
    (only backslash-quote is an escape) and returns (value, index after the closing quote) or None"""
    n = len(text)
    val = []
    while True:
        if j >= n:
            return None
        ch = text[j]
        if ch == BS and j + 1 < n and text[j + 1] == '"':
            val.append('"')
            j += 2
            continue
        if ch == '"':
            return "".join(val), j + 1
        val.append(ch)
        j += 1


def check_attr_text(text, before, label_value, after):
    """text must read: before + label="<quoted label_value>" + after, where the quoted part is scanned with
    the DOT rule (the concrete parts are compared as a whole: scanning them character by character through a
    symbolic string costs CrossHair ~10 s per path and decides nothing)"""
    pre = before + 'label="'
    if not text.startswith(pre):
        return False
    r = scan_quoted(text, len(pre))
    if r is None:
        return False
    val, j = r
    if val != label_value:
        return False
    return text[j:] == after


class _J(AbstractJob):
    pass


def protect_roundtrip(label: str) -> bool:
    """
    pre: _len_ok(label)
    pre: BS not in label
    post: _ is True
    """
    got = lex_attr_list("label=" + DotStyle.protect(label))
    return got == [("label", label)]


REF = "x"


def expected_rest(obj_factory):
    """the attribute text around the label, taken from the same object with the reference label 'x' (concrete):
    the check is about quoting, it must not depend on cosmetic choices (colours, widths, attribute order)"""
    ref = obj_factory(REF)
    ref._sched_id = "7"
    text = repr(ref.dot_style())
    marker = 'label="7: ' + REF + '"'
    k = text.find(marker)
    if k < 0:
        return None
    return text[:k], text[k + len(marker):]


def job_style(label: str, critical: bool, forever: bool) -> bool:
    """
    pre: _len_ok(label)
    pre: BS not in label
    post: _ is True
    """
    job = _J(label=label, critical=critical, forever=forever)
    job._sched_id = "7"
    rest = expected_rest(lambda lab: _J(label=lab, critical=critical, forever=forever))
    if rest is None:
        return False
    return check_attr_text(repr(job.dot_style()), rest[0], "7: " + label, rest[1])


def cluster_style(label: str, critical: bool, forever: bool) -> bool:
    """
    pre: _len_ok(label)
    pre: BS not in label
    post: _ is True
    """
    sched = Scheduler(label=label, critical=critical, forever=forever)
    sched._sched_id = "7"
    rest = expected_rest(lambda lab: Scheduler(label=lab, critical=critical, forever=forever))
    if rest is None:
        return False
    return check_attr_text(repr(sched.dot_style()), rest[0], "7: " + label, rest[1])


# reachability twins: the negated postcondition must be refuted by CrossHair (a passing input exists), which
# shows that the preconditions are satisfiable and the end of the harness is reached
def protect_roundtrip_twin(label: str) -> bool:
    """
    pre: _len_ok(label)
    pre: BS not in label
    post: _ is not True
    """
    return protect_roundtrip(label)


def job_style_twin(label: str, critical: bool, forever: bool) -> bool:
    """
    pre: _len_ok(label)
    pre: BS not in label
    post: _ is not True
    """
    return job_style(label, critical, forever)


def cluster_style_twin(label: str, critical: bool, forever: bool) -> bool:
    """
    pre: _len_ok(label)
    pre: BS not in label
    post: _ is not True
    """
    return cluster_style(label, critical, forever)
