"""C17 -- neighbour, reachability and traversal queries agree with the requirements"""
import itertools

from runner import Harness
from symx import Violation
from graphs.common import GJob, GSched, GPure, make_jobs, ref_closure

TITLE = "neighbour, reachability and traversal queries agree with the requirements"
TECHNIQUE = "solver-driven bounded-exhaustive symbolic execution of the real query methods: DAG edge bits, forever bits, iteration order and one prior edit are z3 symbols case-split by the explorer; inside each path every non-empty set of start jobs is queried; oracle = reference transitive closure on the decided bits"
OUTSIDE = ["DAGs on more than 5 nodes", "random instances up to 12 nodes (sampling is outside this technique)",
           "more than one edit before querying"]
ASSUMPTIONS = ["members 'directly required' = required jobs that are members (after sched.remove() a dangling "
               "requirement is not a member any more)"]
RULE = ("one evaluation = one path = one (DAG, forever assignment, iteration order, edit); inside it all non-empty "
        "start sets are queried; non-trivial = the DAG has an edge")


def fail(what, info):
    raise Violation(what, {"info": info})


def query_harness(name, n, perm_mode, top_kinds, edits):
    def fn(api):
        jobs = make_jobs(api, n, perm_mode)
        nedges = 0
        for i, a in enumerate(jobs):
            for b in jobs[i + 1:]:
                if api.flag("e_%s_%s" % (a, b)):
                    b.requires(a)
                    nedges += 1
        for j in jobs:
            j.forever = api.flag("f_%s" % j)
        kind = top_kinds[api.choice("kind", len(top_kinds))]
        sched = GPure(*jobs) if kind == "pure" else GSched("S", 0, *jobs)
        edit = edits[api.choice("edit", len(edits))]
        members = list(jobs)
        if edit != "none" and api.flag("query_before_edit"):
            # the queries are asked once before the edit as well: cached reverse links must not go stale
            for j in jobs:
                list(sched.successors(j))
            sched.successors_downstream(*jobs[:1])
            list(sched.exit_jobs())
        if edit == "remove-edge":
            pairs = [(a, b) for i, a in enumerate(jobs) for b in jobs[i + 1:]]
            a, b = pairs[api.choice("which", len(pairs))]
            if a in b.required:
                b.requires(a, remove=True)
            else:
                b.requires(a)
        elif edit == "move-edge":
            # same number of jobs and of links before and after
            cands = [(k, r) for k in range(n) for r in range(k) if jobs[r] in jobs[k].required]
            if not cands:
                api.assume(False)
            k, r = cands[api.choice("which", len(cands))]
            others = [x for x in range(k) if jobs[x] not in jobs[k].required]
            if not others:
                api.assume(False)
            x = others[api.choice("to", len(others))]
            jobs[k].requires(jobs[r], remove=True)
            jobs[k].requires(jobs[x])
        elif edit == "remove-job":
            k = api.choice("which", n)
            sched.remove(jobs[k])
            members.remove(jobs[k])
        elif edit == "add-job":
            extra = GJob("x", 7)
            extra.requires(jobs[0])
            if n > 1:
                jobs[-1].requires(extra)
            sched.add(extra)
            members.append(extra)
        if nedges:
            api.note("nt")
        mset = set(members)
        req = {j: set(r for r in j.required if r in mset) for j in members}
        succ = {j: set(k for k in members if j in req[k]) for j in members}
        up = ref_closure(members, req)
        down = ref_closure(members, succ)
        info = {"requires": {str(j): sorted(map(str, j.required)) for j in members}, "edit": edit, "kind": kind,
                "forever": [str(j) for j in members if j.forever]}
        nq = 0
        for k in range(1, len(members) + 1):
            for starts in itertools.combinations(members, k):
                want_p = set().union(*[req[s] for s in starts])
                want_s = set().union(*[succ[s] for s in starts])
                want_u = set().union(*[up[s] for s in starts])
                want_d = set().union(*[down[s] for s in starts])
                for meth, want in (("predecessors", want_p), ("successors", want_s),
                                   ("predecessors_upstream", want_u), ("successors_downstream", want_d)):
                    got = list(getattr(sched, meth)(*starts))
                    nq += 1
                    if len(got) != len(set(got)) or set(got) != want:
                        fail("C17: %s(%s) = %s, expected %s" % (meth, ",".join(map(str, starts)),
                                                                sorted(map(str, got)), sorted(map(str, want))), info)
        try:
            got = list(sched.iterate_jobs())
        except Exception as e:
            fail("C17: iterate_jobs() raised %s: %s" % (type(e).__name__, e), info)
        if len(got) != len(members) or set(got) != mset:
            fail("C17: iterate_jobs() = %s, the jobs are %s" % (got, members), info)
        got = list(sched.entry_jobs())
        want = [j for j in members if not j.required]
        if len(got) != len(set(got)) or set(got) != set(want):
            fail("C17: entry_jobs() = %s, expected %s" % (got, want), info)
        for discard in (True, False):
            got = list(sched.exit_jobs(discard_forever=discard))
            want = [j for j in members if not succ[j] and not (discard and j.forever)]
            if len(got) != len(set(got)) or set(got) != set(want):
                fail("C17: exit_jobs(discard_forever=%s) = %s, expected %s" % (discard, got, want), info)
        got = list(sched.exit_jobs())
        want = [j for j in members if not succ[j] and not j.forever]
        if set(got) != set(want):
            fail("C17: exit_jobs() = %s, expected %s (forever ones left out by default)" % (got, want), info)
        if edit == "none" and len(members) > 1 and api.flag("then_trim"):
            # the reverse links are up to date (they have just been computed); the scheduler is trimmed through
            # keep_only(), which sanitizes; the documented shortcut compute_backlinks=False must still be right
            victim = members[api.choice("trim_which", len(members))]
            rest = [j for j in members if j is not victim]
            sched.keep_only(rest)
            rset = set(rest)
            succ2 = {j: set(k for k in rest if j in k.required) for j in rest}
            info["then"] = "keep_only(all but %s)" % victim
            got = list(sched.exit_jobs(discard_forever=False, compute_backlinks=False))
            want = [j for j in rest if not succ2[j]]
            if set(got) != set(want) or len(got) != len(set(got)):
                fail("C17: after keep_only, exit_jobs(discard_forever=False, compute_backlinks=False) = %s, expected %s"
                     % (got, want), info)
            for j in rest:
                got = list(sched.successors(j, compute_backlinks=False))
                if set(got) != succ2[j]:
                    fail("C17: after keep_only, successors(%s, compute_backlinks=False) = %s, expected %s"
                         % (j, got, sorted(map(str, succ2[j]))), info)
        api.note("c17_queries", nq)
        api.sample(info)
    return Harness(name, fn, bounds={"nodes": n, "iteration_orders": perm_mode, "edits": edits, "top": top_kinds},
                   free=["upper-triangular edge bits", "forever bits", "iteration order", "edit"], cut0=10)


def iterate_harness(name):
    shapes = {
        "flat": ["j", "j"],
        "n1": ["j", ["j", "j"]],
        "n2": [["j"], ["j", ["j"]]],
        "deep": ["j", [["j", ["j"]], "j"]],
        "empty": ["j", [], [[]]],
    }
    names = sorted(shapes)

    def fn(api):
        shape = names[api.choice("shape", len(names))]
        pure = api.flag("pure_top")
        atoms, scheds = [], []
        cnt = [0]

        def mk(t):
            cnt[0] += 1
            me = cnt[0]
            if t == "j":
                j = GJob("j%d" % me, me % 8)
                atoms.append(j)
                return j
            kids = [mk(c) for c in t]
            s = GSched("s%d" % me, me % 8, *kids)
            scheds.append(s)
            return s
        kids = [mk(c) for c in shapes[shape]]
        top = GPure(*kids) if pure else GSched("top", 0, *kids)
        api.note("nt")
        got = list(top.iterate_jobs())
        if len(got) != len(atoms) or set(got) != set(atoms):
            fail("C17: iterate_jobs() = %s, the atomic jobs of the tree are %s" % (got, atoms), {"shape": shape})
        got = list(top.iterate_jobs(scan_schedulers=True))
        want = atoms + scheds + [top]
        if len(got) != len(want) or set(map(id, got)) != set(map(id, want)):
            fail("C17: iterate_jobs(scan_schedulers=True) = %s, expected every job and scheduler once: %s"
                 % (got, want), {"shape": shape})
        api.sample({"shape": shape, "iterate_jobs": [str(x) for x in got]})
    return Harness(name, fn, bounds={"shapes": shapes}, free=["shape", "top-level class"], cut0=6)


def after_run_harness():
    from env.scenario import Profile
    from props.common import scenario_harness
    from props import oracles as O
    # order of the two calls matters: compute_backlinks=False is asked first, on what the run left behind
    return scenario_harness("queries-after-a-run", Profile(templates=("F4",), crit_job=False, perm="two", top="pure"),
                            [O.c17_after_run])


def after_aborted_run_harness():
    from env.scenario import Profile
    from props.common import scenario_harness
    from props import oracles as O
    return scenario_harness("queries-after-an-aborted-nested-run-and-an-edit", Profile(
        templates=("N12",), crit_job=False, perm="id", top="pure", timeout="always", timeout_scope="top",
        crit_sched=False), [O.c17_after_run])


def harnesses(tier):
    if tier == "quick":
        return [after_run_harness(), after_aborted_run_harness(), query_harness("dag4", 4, "two", ["pure", "sched"], ["none", "remove-edge", "move-edge", "remove-job", "add-job"]),
                iterate_harness("iterate-jobs")]
    return [query_harness("dag5", 5, "two", ["pure"], ["none", "remove-job"]),
            query_harness("dag4-all-orders", 4, "free", ["pure", "sched"],
                          ["none", "remove-edge", "move-edge", "remove-job", "add-job"]),
            iterate_harness("iterate-jobs")]
