"""C10 -- a nested scheduler behaves as one job; nesting is transparent"""
from runner import Harness
from env.scenario import Profile, build, execute, flatten, TEMPLATES
from props.common import scenario_harness
from props import oracles as O
from symx import seq_

TITLE = "a nested scheduler behaves as one job; nesting is transparent"
OUTSIDE = ["depth > 3", "more than 4 atomic jobs",
           "flattening when the parent has a window (one slot is not k slots) or the nested scheduler has a window, "
           "a timeout or forever jobs (excluded by the statement)"]
ASSUMPTIONS = ["flattened twin: entry jobs of the nested scheduler inherit its requirements, its successors require "
               "all its jobs; presence of a start may differ between the twins only in the very instant of an abort"]


def _whose(run, exc):
    """name of the job whose own exception object this is (or the exception's type)"""
    for j in run.jobs():
        if j.exc is exc:
            return j.name
    return type(exc).__name__


def flat_twin(name, prof, templates):
    def fn(api):
        tname = templates[api.choice("template", len(templates))]
        rn = build(api, prof, tname)
        execute(rn)
        rf = flatten(rn, api)
        execute(rf)
        api.note("nt")
        extra = {"flat": rf.dump()}
        if rn.outcome[0] != rf.outcome[0] or (rn.outcome[0] == "ret" and rn.outcome[1] != rf.outcome[1]):
            O.fail(api, "C10: nested tree gives %r, flattened graph %r" % (rn.outcome, rf.outcome), rn, extra)
        if rn.outcome[0] == "exc" and _whose(rn, rn.outcome[1]) != _whose(rf, rf.outcome[1]):
            O.fail(api, "C10: nested tree raises %r, flattened graph %r" % (rn.outcome[1], rf.outcome[1]), rn, extra)
        # instant of the abort, if any (for the same-instant tolerance)
        t_abort = None
        if rn.outcome[0] == "exc" or (rn.outcome[0] == "ret" and rn.outcome[1] is False):
            t_abort = rn.t_return
        for j in rn.jobs():
            jf = rf.nodes[j.name]
            for what, a, b in (("start", rn.started(j), rf.started(jf)), ("finish", rn.finished(j), rf.finished(jf))):
                if a is not None and b is not None:
                    O.prove(api, seq_(a.t, b.t), "C10: %s of %s at different times in the nested tree and in the "
                            "flattened graph" % (what, j), rn, extra)
                    if a.kind != b.kind:
                        O.fail(api, "C10: outcome of %s differs between nested and flattened" % j, rn, extra)
                elif a is not None or b is not None:
                    ev = a if a is not None else b
                    if t_abort is None:
                        O.fail(api, "C10: %s of %s only in one of nested / flattened" % (what, j), rn, extra)
                    O.prove(api, seq_(ev.t, t_abort), "C10: %s of %s happens only in one of nested / flattened, "
                            "and not in the instant of the abort" % (what, j), rn, extra)
        api.sample({"template": tname, "nested": rn.dump()[:30], "flat": rf.dump()[:30]})

    bounds = {"templates": {t: TEMPLATES[t] for t in templates}}
    bounds.update(prof.describe())
    return Harness(name, fn, bounds=bounds, free=[k for k, v in prof.describe().items() if v in ("free", "two")])


def harnesses(tier):
    o = [O.c10_nested_results, O.c12_unwindowed, O.c04_verdict, O.c05_critical_abort, O.c07_window, O.c08_timeout]
    req = ("c10_contained", "c10_propagated")
    if tier == "quick":
        return [
            scenario_harness("nested-as-one-job", Profile(
                templates=("N12", "N21", "E3"), raises="free", crit_job="free", crit_sched="free", perm="id",
                top="sched", top_crit="free"), o + [O.c01_requirements], required_notes=req),
            scenario_harness("nested-own-window-timeout", Profile(
                templates=("N12",), window="free", timeout="free", perm="id", crit_job=False, crit_sched="free"),
                o + [O.c11_clean_exit]),
            scenario_harness("nested-critical-and-forever", Profile(
                templates=("N12",), raises="free", crit_job=True, crit_sched="free", forever_sched="free",
                perm="id", top="pure", edges="none"), o),
            scenario_harness("chains-depth3", Profile(
                templates=("D3",), raises="free", crit_job="free", crit_sched="free", perm="id", top="sched",
                top_crit="free", edges="none"), o, required_notes=req),
            scenario_harness("nested-own-window-with-forever-jobs", Profile(
                templates=("N13",), window="always", window_scope="nested", forever="free", perm="id",
                crit_job=False, crit_sched=False, edges="none"), o + [O.c09_forever]),
            flat_twin("flatten", Profile(raises="free", crit_job="free", crit_sched=True, perm="id", top="pure"),
                      ("N12", "N21", "D3")),
        ]
    return [
        scenario_harness("nested-as-one-job", Profile(
            templates=("N12", "N21", "N22", "NN"), raises="free", crit_job="free", crit_sched="free", perm="id",
            top="sched", top_crit="free"), o, required_notes=req),
        scenario_harness("nested-own-window-timeout", Profile(
            templates=("N12", "N22"), window="free", timeout="free", perm="id", crit_job=False, crit_sched="free",
            raises="free"), o),
        scenario_harness("chains-depth3", Profile(
            templates=("D3", "D3b"), raises="free", crit_job="free", crit_sched="free", perm="id", top="sched",
            top_crit="free"), o, required_notes=req),
        flat_twin("flatten", Profile(raises="free", crit_job="free", crit_sched=True, perm="two", top="pure"),
                  ("N12", "N21", "N22", "NN", "D3", "N1N")),
    ]
