"""C09 -- forever jobs are never waited for and never outlive the run"""
from env.scenario import Profile
from props.common import scenario_harness
from props import oracles as O

TITLE = "forever jobs are never waited for and never outlive the run"
OUTSIDE = ["more than 4 atomic jobs", "schedulers owning only forever jobs (known finding KF-1, recorded under C04)"]
ASSUMPTIONS = ["every non-empty scheduler owns at least one non-forever job"]


def harnesses(tier):
    o = [O.c09_forever, O.c01_requirements, O.c12_unwindowed, O.c07_window, O.c11_clean_exit]
    req = ("c09_cancelled_forever",)
    if tier == "quick":
        return [
            scenario_harness("flat-forever-never", Profile(
                templates=("F3",), forever="free", never="free", perm="two", top="pure", crit_job=False),
                o, pre=_never_is_forever, required_notes=req),
            scenario_harness("flat-forever-window-lat", Profile(
                templates=("F3",), forever="free", window="free", lat="free", perm="id", top="pure",
                crit_job=False), o, required_notes=req),
            scenario_harness("flat-forever-verbose", Profile(
                templates=("F3",), forever="free", perm="two", top="pure", crit_job=False, verbose=True,
                edges="none"), o, required_notes=req),
            scenario_harness("nested-forever-scheduler", Profile(
                templates=("N12",), forever="free", forever_sched="free", perm="id", crit_job=False,
                crit_sched=False), o, required_notes=req),
            scenario_harness("nested-forever-scheduler-with-window", Profile(
                templates=("N12",), forever_sched=True, never="free", forever="free", window="always",
                window_scope="nested", perm="id", crit_job=False, crit_sched=False, edges="none"), o,
                required_notes=req),
            scenario_harness("nested-forever-scheduler-handlers", Profile(
                templates=("N12",), forever_sched="free", sd="free", lat="free", perm="id", crit_job=False,
                crit_sched=False, edges="none"), o, required_notes=req + ("propagated_cancellations",)),
        ]
    return [
        scenario_harness("flat4-forever-never", Profile(
            templates=("F4",), forever="free", never="free", perm="two", crit_job=False), o,
            pre=_never_is_forever, required_notes=req),
        scenario_harness("flat3-forever-window-lat-timeout", Profile(
            templates=("F3",), forever="free", window="free", lat="free", timeout="free", perm="two",
            crit_job=False, sd="free"), o, required_notes=req),
        scenario_harness("nested-forever-scheduler", Profile(
            templates=("N12", "N22", "D3"), forever="free", forever_sched="free", never="free", perm="id",
            crit_job=False, crit_sched=False), o, pre=_never_is_forever, required_notes=req),
    ]


def _never_is_forever(api, run):
    api.assume(O.admissible(api, run))
