"""C16 -- sanitize() closes the requirement relation minimally and reports truthfully"""
from runner import Harness
from symx import Violation
from graphs.common import GJob, GSched, GPure, capture

TITLE = "sanitize() closes the requirement relation minimally and reports truthfully"
TECHNIQUE = "solver-driven bounded-exhaustive symbolic execution of the real sanitize(): tree template and every ordered pair of distinct nodes as a requirement edge are z3 symbols case-split by the explorer; oracle = set intersection with the member set, per scheduler"
OUTSIDE = ["trees with more than 5 nodes", "depth > 3", "a job placed in two schedulers (documented as unsupported)"]
ASSUMPTIONS = []
RULE = ("one evaluation = one path = one (tree template, edge set); non-trivial = at least one edge leaves its "
        "scheduler (something has to be removed)")

# templates: nested tuples; 'j' atomic job; ('S', children...) nested scheduler; top-level list = members of the top
# scheduler; the string 'o' = an outsider job that belongs to no scheduler
TEMPLATES = {
    "flat3+o": (["j", "j", "j"], 1),
    "flat2+oo": (["j", "j"], 2),
    "nest(j,j)+j": ([["j", "j"], "j"], 0),
    "nest(j)+j+o": ([["j"], "j"], 1),
    "nest(nest(j))+j": ([[["j"]], "j"], 0),
    "nest(j)+nest(j)": ([["j"], ["j"]], 0),
    "nest()+j+j": ([[], "j", "j"], 0),
    "nest(nest(j),j)+j": ([[["j"], "j"], "j"], 0),
    "nest(nest(j,j))+o": ([[["j", "j"]]], 1),
    "nest(j,j)+nest(j)": ([["j", "j"], ["j"]], 0),
}


def build(tmpl, n_out, pure_top):
    nodes = []              # every node except the top scheduler
    parent = {}
    counter = [0]
    shared = set()          # the same (empty) set object is handed to every job constructor as required=

    def mk(t, depth):
        counter[0] += 1
        me = counter[0]
        if t == "j":
            j = GJob("j%d" % me, me % 8, required=shared)
            nodes.append(j)
            return j
        kids = [mk(c, depth + 1) for c in t]
        s = GSched("s%d" % me, me % 8, *kids)
        for k in kids:
            parent[k] = s
        nodes.append(s)
        return s
    kids = [mk(c, 1) for c in tmpl]
    top = GPure(*kids) if pure_top else GSched("top", 0, *kids)
    for k in kids:
        parent[k] = top
    outs = []
    for i in range(n_out):
        o = GJob("o%d" % i, 7 - i, required=shared)
        nodes.append(o)
        outs.append(o)
    return top, nodes, parent


def scheds_of(top):
    out = [top]
    for j in top.jobs:
        if isinstance(j, GSched):
            out += scheds_of(j)
    return out


def harness(name, tnames, max_nodes):
    def fn(api):
        tname = tnames[api.choice("template", len(tnames))]
        tmpl, n_out = TEMPLATES[tname]
        pure_top = api.flag("pure_top")
        top, nodes, parent = build(tmpl, n_out, pure_top)
        before = {}
        crossing = 0
        for a in nodes:
            for b in nodes:
                if a is b:
                    continue
                if api.flag("e_%s_%s" % (a, b)):        # b requires a
                    b.requires(a)
                    if parent.get(a) is not parent.get(b) or parent.get(b) is None:
                        crossing += 1
        for x in nodes:
            before[x] = set(x.required)
        if crossing:
            api.note("nt")
        info = {"template": tname, "requires": {str(x): sorted(map(str, before[x])) for x in nodes}}
        if api.flag("verbose"):
            top.verbose = True
        r1 = capture(top.sanitize)[0]
        removed_any = False
        for s in scheds_of(top):
            members = set(s.jobs)
            for j in s.jobs:
                want = before[j] & members
                if set(j.required) != want:
                    raise Violation("C16: after sanitize() %s (member of %s) requires %s, expected %s"
                                    % (j, s, sorted(map(str, j.required)), sorted(map(str, want))), {"info": info})
                if want != before[j]:
                    removed_any = True
        if r1 is not (not removed_any):
            raise Violation("C16: sanitize() returned %r although %s had to be removed"
                            % (r1, "something" if removed_any else "nothing"), {"info": info})
        r2 = capture(top.sanitize)[0]
        if r2 is not True:
            raise Violation("C16: a second sanitize() returned %r" % (r2,), {"info": info})
        # history: the tree is edited after having been sanitized, and sanitized again
        cross = [(a, b) for a in nodes for b in nodes
                 if a is not b and parent.get(b) is not None and parent.get(a) is not parent.get(b)]
        cross = cross[:1] + cross[len(cross) // 2:len(cross) // 2 + 1] + cross[-1:]
        if cross and api.flag("edit_and_sanitize_again"):
            a, b = cross[api.choice("new_edge", len(cross))]
            keep = set(b.required)
            b.requires(a)
            info["then"] = "%s.requires(%s); sanitize()" % (b, a)
            r3 = capture(top.sanitize)[0]
            if set(b.required) != keep:
                raise Violation("C16: after a new dangling requirement %s -> %s and sanitize(), %s requires %s, "
                                "expected %s" % (a, b, b, sorted(map(str, b.required)), sorted(map(str, keep))),
                                {"info": info})
            if r3 is not False:
                raise Violation("C16: sanitize() returned %r although the new requirement %s -> %s had to be "
                                "removed" % (r3, a, b), {"info": info})
            api.note("c16_resanitized")
        api.sample(info)
    return Harness(name, fn, bounds={"templates": {t: TEMPLATES[t] for t in tnames},
                                     "edges": "every ordered pair of distinct nodes (members, siblings, parent, "
                                              "child, outsiders, the nested schedulers themselves)"},
                   free=["template", "every ordered pair as an edge", "top-level class"], cut0=10)


def harnesses(tier):
    if tier == "quick":
        return [harness("4-nodes", ["flat3+o", "flat2+oo", "nest(j,j)+j", "nest(j)+j+o", "nest(nest(j))+j",
                                    "nest(j)+nest(j)", "nest()+j+j"], 4)]
    return [harness("4-nodes", ["flat3+o", "flat2+oo", "nest(j,j)+j", "nest(j)+j+o", "nest(nest(j))+j",
                                "nest(j)+nest(j)"], 4),
            harness("5-nodes", ["nest(nest(j),j)+j", "nest(nest(j,j))+o", "nest(j,j)+nest(j)"], 5)]
