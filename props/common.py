"""Shared harness factory for the scheduling properties C01-C14."""
from runner import Harness
from env.scenario import Profile, build, execute, TEMPLATES
from props import oracles as O


def scenario_harness(name, prof, oracle_fns, pre=None, sampler=None, post=None, required_notes=(),
                     cut0=8, extra_bounds=None):
    """prof: Profile; oracle_fns: list of f(api, run); pre: f(api, run) before the run (assumes);
    sampler: dict(c12=..., c14=...) to sample at quiescent points"""
    templates = list(prof.templates)

    def fn(api):
        ti = api.choice("template", len(templates))
        tname = templates[ti]
        run = build(api, prof, tname)
        run.template = tname
        if pre is not None:
            pre(api, run)
        if sampler is not None:
            run._want_sampler = sampler
        _exec(api, run)
        for f in oracle_fns:
            f(api, run)
        if post is not None:
            post(api, run)
        api.sample({"template": tname, "events": run.dump()[:40], "outcome": repr(run.outcome)})

    bounds = {"templates": {t: TEMPLATES[t] for t in templates}}
    bounds.update(prof.describe())
    if extra_bounds:
        bounds.update(extra_bounds)
    free = [k for k, v in prof.describe().items() if v in ("free", "always", "two")]
    return Harness(name, fn, bounds=bounds, free=free, required_notes=required_notes, cut0=cut0)


def _exec(api, run):
    want = getattr(run, "_want_sampler", None)
    if want is None:
        execute(run)
        return

    def on_loop(loop):
        loop.on_quiescent.append(O.install_sampler(api, run, **want))
    execute(run, on_loop=on_loop)
    run.sampler()       # once more after the run
