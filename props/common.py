"""Shared harness factory for the scheduling properties C01-C14."""
from runner import Harness
from env.scenario import Profile, build, execute, TEMPLATES
from props import oracles as O


def scenario_harness(name, prof, oracle_fns, pre=None, sampler=None, post=None, required_notes=(),
                     cut0=8, extra_bounds=None):
    """prof: Profile; oracle_fns: list of f(api, run); pre: f(api, run) before the run (assumes);
    sampler: dict(c12=..., c14=...) to sample at quiescent points"""
    templates = list(prof.templates)

    def fn(api):
        ti = api.choice("template", len(templates))
        tname = templates[ti]
        run = build(api, prof, tname)
        run.template = tname
        if pre is not None:
            pre(api, run)
        if sampler is not None:
            run._want_sampler = sampler
        _exec(api, run)
        for f in oracle_fns:
            f(api, run)
        if post is not None:
            post(api, run)
        api.sample({"template": tname, "events": run.dump()[:40], "outcome": repr(run.outcome)})

    bounds = {"templates": {t: TEMPLATES[t] for t in templates}}
    bounds.update(prof.describe())
    if extra_bounds:
        bounds.update(extra_bounds)
    free = [k for k, v in prof.describe().items() if v in ("free", "always", "two")]
    return Harness(name, fn, bounds=bounds, free=free, required_notes=required_notes, cut0=cut0)


def _exec(api, run):
    want = getattr(run, "_want_sampler", None)
    if want is None:
        execute(run)
        return

    def on_loop(loop):
        loop.on_quiescent.append(O.install_sampler(api, run, **want))
    execute(run, on_loop=on_loop)
    run.sampler()       # once more after the run


def edit_before_run(api, run):
    """ordinary use before the run: the graph is inspected (which computes the cached reverse links), then edited
    through the public API, then run"""
    top = run.top
    list(top.obj.exit_jobs())
    list(top.obj.successors(*[c.obj for c in top.children[:1]]))
    kids = top.children
    kind = api.choice("edit", 4)
    if kind == 0:
        return
    if kind == 3:           # move one requirement edge: same number of jobs and of links afterwards
        cands = [(a, b, x) for b in kids for a in b.reqs for x in kids[:kids.index(b)]
                 if x is not a and x not in b.reqs]
        if not cands:
            api.assume(False)
        a, b, x = cands[api.choice("which_move", len(cands))]
        b.obj.requires(a.obj, remove=True)
        b.obj.requires(x.obj)
        b.reqs.remove(a)
        b.reqs.append(x)
        api.note("c02_edits")
        return
    if kind == 1:           # drop one requirement edge
        edges = [(a, b) for b in kids for a in b.reqs]
        if not edges:
            api.assume(False)
        a, b = edges[api.choice("which_edge", len(edges))]
        b.obj.requires(a.obj, remove=True)
        b.reqs.remove(a)
    else:                   # take one job out, re-linking around it
        k = api.choice("which_job", len(kids))
        victim = kids[k]
        top.obj.bypass_and_remove(victim.obj)
        for m in kids:
            if victim in m.reqs:
                m.reqs.remove(victim)
                for r in victim.reqs:
                    if r not in m.reqs:
                        m.reqs.append(r)
        kids.remove(victim)
        del run.nodes[victim.name]
        run.removed = getattr(run, "removed", []) + [victim]
    api.note("c02_edits")


