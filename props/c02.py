"""C02 -- success means every non-forever job ran exactly once; no job ever runs twice"""
from env.scenario import Profile
from props.common import scenario_harness
from props import oracles as O

TITLE = "exactly-once, and success means everything ran"
OUTSIDE = ["more than 5 atomic jobs", "nesting depth > 3", "re-running the same scheduler object twice"]
ASSUMPTIONS = []


from props.common import edit_before_run        # noqa: E402


def harnesses(tier):
    o = [O.c02_exactly_once]
    if tier == "quick":
        return [
            scenario_harness("flat-forever-window", Profile(
                templates=("F3",), forever="free", window="free", crit_job=False, raises="free", perm="two",
                top="pure"), o, required_notes=("c02_success_runs",)),
            scenario_harness("flat-simultaneous", Profile(
                templates=("F3",), forever="free", post=1, ties=True, perm="id", top="pure", edges="free"),
                o, required_notes=("c02_success_runs",)),
            scenario_harness("flat-outcomes-critical", Profile(
                templates=("F3",), raises="free", crit_job="free", edges="none", perm="two", top="pure",
                task_hash="free"), o, required_notes=("c02_success_runs",)),
            scenario_harness("fanin-window-yields", Profile(
                templates=("F3",), edges="fanin", raises="free", crit_job=False, window="always", post=2,
                perm="id", top="pure"), o, required_notes=("c02_success_runs",)),
            scenario_harness("fanin5-window2-lagging-requirement", Profile(
                templates=("F5",), edges="fanin2", raises="free", crit_job=False, window=2, post=4,
                yield_jobs=("j1",), perm="id", top="pure"), o, required_notes=("c02_success_runs",)),
            scenario_harness("edited-before-run", Profile(
                templates=("F3",), edges="free", window="free", crit_job=False, perm="id", top="pure"), o,
                pre=edit_before_run, required_notes=("c02_success_runs", "c02_edits")),
            scenario_harness("nested-critical-timeout", Profile(
                templates=("N12",), raises="free", crit_job="free", timeout="free", timeout_scope="nested",
                perm="id", top="sched"), o, required_notes=("c02_success_runs",)),
        ]
    return [
        scenario_harness("flat4-forever-window", Profile(
            templates=("F4",), forever="free", window="free", crit_job=False, raises="free", perm="two"), o,
            required_notes=("c02_success_runs",)),
        scenario_harness("flat3-ties-yields", Profile(
            templates=("F3",), forever="free", raises="free", crit_job="free", pre=1, post=2, ties=True,
            window="free", perm="free"), o, required_notes=("c02_success_runs",)),
        scenario_harness("nested", Profile(
            templates=("N12", "N22", "D3"), forever="free", forever_sched="free", raises="free", crit_job="free",
            window="free", timeout="free", timeout_scope="nested", perm="two"), o,
            required_notes=("c02_success_runs",)),
    ]
