"""C18 -- graph surgery keeps exactly the documented jobs and preserves precedence"""
import itertools

from runner import Harness
from symx import Violation
from graphs.common import GJob, GSched, GPure, make_jobs, ref_closure, ref_acyclic

TITLE = "graph surgery keeps exactly the documented jobs and preserves precedence"
TECHNIQUE = "solver-driven bounded-exhaustive symbolic execution of the real bypass_and_remove/keep_only/keep_only_between: DAG edge bits, operation, operands and flags are z3 symbols case-split by the explorer, sequences of two operations; oracle = reference transitive closure before vs after"
OUTSIDE = ["DAGs on more than 5 nodes", "starts/ends outside the scheduler (undocumented)", "nested targets "
           "(documented as unsupported)", "sequences of more than 2 operations", "random instances up to 12 nodes"]
ASSUMPTIONS = ["the scheduler is closed and acyclic before the first operation"]
RULE = ("one evaluation = one path = one (DAG, sequence of operations with operands); non-trivial = the operation "
        "removed at least one job")


def fail(what, info):
    raise Violation(what, {"info": info})


def subsets(members, maxk):
    out = [()]
    for k in range(1, maxk + 1):
        out += list(itertools.combinations(members, k))
    return out


def apply_op(api, sched, members, tag, info, ops, maxk=2, variants=True):
    """applies one operation chosen by the solver; returns the expected member list"""
    op = ops[api.choice("op" + tag, len(ops))]
    mset = set(members)
    req = {j: set(j.required) for j in members}
    for j in members:
        if not req[j] <= mset:
            fail("C18: harness error: scheduler not closed before the operation", info)
    up = ref_closure(members, req)
    info["ops"].append(op)
    if op == "bypass":
        if not members:
            return members
        t = members[api.choice("target" + tag, len(members))]
        info["ops"][-1] = "bypass_and_remove(%s)" % t
        sched.bypass_and_remove(t)
        want_members = [j for j in members if j is not t]
        want_up = {j: up[j] - {t} for j in want_members}
        check_after(sched, want_members, None, want_up, info)
        api.note("nt")
        return want_members
    if op == "add":
        # not surgery itself: a job is added between two operations (the documented way to grow a scheduler)
        if not members:
            return members
        r = members[api.choice("add_after" + tag, len(members))]
        new = GJob("n" + tag, 6 - int(tag))
        new.requires(r)
        sched.add(new)
        info["ops"][-1] = "add(%s requiring %s)" % (new, r)
        want_members = members + [new]
        want_req = {j: set(req[j]) for j in members}
        want_req[new] = {r}
        check_after(sched, want_members, want_req, None, info)
        return want_members
    if op == "keep_only":
        subs = subsets(members, len(members))
        R = subs[api.choice("R" + tag, len(subs))]
        extra_outsider = api.flag("outsider" + tag)
        arg = list(R) + ([GJob("outsider", 7)] if extra_outsider else [])
        info["ops"][-1] = "keep_only(%s)" % [str(x) for x in arg]
        sched.keep_only(arg)
        want_members = [j for j in members if j in R]
        want_req = {j: req[j] & set(want_members) for j in want_members}
        check_after(sched, want_members, want_req, None, info)
        if len(want_members) < len(members):
            api.note("nt")
        return want_members
    if op == "between":
        subs = subsets(members, maxk)
        starts = subs[api.choice("starts" + tag, len(subs))]
        ends = subs[api.choice("ends" + tag, len(subs))]
        ks, ke = api.flag("keep_starts" + tag), api.flag("keep_ends" + tag)
        as_iter = api.flag("iterators" + tag) if variants else False
        info["ops"][-1] = "keep_only_between(starts=%s, ends=%s, keep_starts=%s, keep_ends=%s)" % (
            [str(x) for x in starts], [str(x) for x in ends], ks, ke)
        down = {j: set(k for k in members if j in up[k]) for j in members}
        dw = set().union(*[down[s] for s in starts]) if starts else set(members)
        uw = set().union(*[up[e] for e in ends]) if ends else set(members)
        keep = dw & uw
        if ks:
            keep |= set(starts)
        if ke:
            keep |= set(ends)
        kw = {}
        if starts or (variants and api.flag("pass_empty_starts" + tag)):
            kw["starts"] = iter(starts) if as_iter else list(starts)
        if ends or (variants and api.flag("pass_empty_ends" + tag)):
            kw["ends"] = iter(ends) if as_iter else list(ends)
        sched.keep_only_between(keep_starts=ks, keep_ends=ke, **kw)
        want_members = [j for j in members if j in keep]
        want_req = {j: req[j] & keep for j in want_members}
        check_after(sched, want_members, want_req, None, info)
        if len(want_members) < len(members):
            api.note("nt")
        return want_members
    raise ValueError(op)


def check_after(sched, want_members, want_req, want_up, info):
    got = list(sched.jobs)
    if len(got) != len(set(got)) or set(got) != set(want_members):
        fail("C18: after %s the scheduler holds %s, expected %s" % (info["ops"][-1], sorted(map(str, got)),
                                                                   sorted(map(str, want_members))), info)
    mset = set(want_members)
    for j in want_members:
        if not set(j.required) <= mset:
            fail("C18: after %s, %s requires %s which is not a member any more (not closed)"
                 % (info["ops"][-1], j, sorted(map(str, set(j.required) - mset))), info)
        if want_req is not None and set(j.required) != want_req[j]:
            fail("C18: after %s, %s requires %s, expected %s" % (info["ops"][-1], j, sorted(map(str, j.required)),
                                                                 sorted(map(str, want_req[j]))), info)
    req_after = {j: set(j.required) for j in want_members}
    if not ref_acyclic(want_members, req_after):
        fail("C18: after %s the scheduler is cyclic" % info["ops"][-1], info)
    if want_up is not None:
        up_after = ref_closure(want_members, req_after)
        for j in want_members:
            if up_after[j] != want_up[j]:
                fail("C18: after %s, %s must run after %s, before the call it was %s"
                     % (info["ops"][-1], j, sorted(map(str, up_after[j])), sorted(map(str, want_up[j]))), info)
    if sched.check_cycles() is not True:
        fail("C18: check_cycles() is False after %s" % info["ops"][-1], info)


def surgery_harness(name, n, nops, ops, perm_mode="id", maxk=2, variants=True, warm=False, sequence=False,
                    empty_node=False):
    def fn(api):
        jobs = make_jobs(api, n, perm_mode)
        if empty_node:
            # one of the nodes may be an empty nested scheduler (a job like any other, but falsy)
            k = api.choice("empty_sched_node", n + 1)
            if k < n:
                jobs[k] = GSched("j%d" % k, jobs[k]._vh)
        for i, a in enumerate(jobs):
            for b in jobs[i + 1:]:
                if api.flag("e_%s_%s" % (a, b)):
                    b.requires(a)
        pure = api.flag("pure")
        sched = GPure(*jobs) if pure else GSched("S", 0, *jobs)
        info = {"requires": {str(j): sorted(map(str, j.required)) for j in jobs}, "ops": []}
        members = list(jobs)
        if warm and api.flag("queries_first"):
            # ordinary read-only use before the surgery (computes the cached reverse links)
            info["ops"].append("queries")
            sched.successors_downstream(*jobs[:1])
            list(sched.exit_jobs())
        for k in range(nops):
            members = apply_op(api, sched, members, str(k), info, [ops[k]] if sequence else ops, maxk, variants)
        api.sample(info)
    return Harness(name, fn, bounds={"nodes": n, "operations_in_sequence": nops, "operations": ops, "in_that_order": sequence,
                                     "starts_ends": "subsets of members of size <= %d%s" % (
                                         maxk, ", lists or one-shot iterators, empty collections passed or omitted"
                                         if variants else ", passed as lists"),
                                     "keep_only": "every subset of members, with or without an outsider"},
                   free=["upper-triangular edge bits", "operation", "operands", "keep flags"], cut0=10)


def harnesses(tier):
    if tier == "quick":
        return [surgery_harness("dag4-one-op", 4, 1, ["bypass", "keep_only", "between"], "id", 2, False),
                surgery_harness("dag3-two-ops", 3, 2, ["bypass", "keep_only", "between"], "id", 1, False),
                surgery_harness("dag4-between-iterators", 4, 1, ["between"], "id", 1, True),
                surgery_harness("dag3-with-an-empty-nested-scheduler", 3, 1, ["bypass", "keep_only", "between"], "id", 2,
                                False, empty_node=True),
                surgery_harness("dag4-queries-then-two-bypasses", 4, 2, ["bypass"], "id", 1, False, warm=True),
                surgery_harness("dag3-queries-bypass-add-between", 3, 3, ["bypass", "add", "between"], "id", 1, False,
                                warm=True, sequence=True)]
    return [surgery_harness("dag5-bypass", 5, 1, ["bypass"], "two"),
            surgery_harness("dag5-keep-only-between", 5, 1, ["keep_only", "between"]),
            surgery_harness("dag4-two-ops", 4, 2, ["bypass", "between"], warm=True),
            surgery_harness("dag5-queries-then-three-bypasses", 5, 3, ["bypass"], "id", 1, False, warm=True)]
