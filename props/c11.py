"""C11 -- clean exit: once a run is over, nothing it started is still running"""
from env.scenario import Profile
from props.common import scenario_harness
from props import oracles as O

TITLE = "clean exit: nothing outlives the run"
OUTSIDE = ["depth > 3", "more than 4 atomic jobs", "jobs that ignore cancellation or whose handlers raise"]
ASSUMPTIONS = ["crash points are symbolic instants: the enclosing scheduler's timeout / a sibling's critical failure "
               "/ its success while the nested scheduler is forever is placed by the solver anywhere relative to the "
               "nested run's phases (main loop, cancellation with latency, shutdown with duration)"]


def harnesses(tier):
    o = [O.c11_clean_exit]
    if tier == "quick":
        return [
            scenario_harness("flat-all-exits", Profile(
                templates=("F3",), raises="free", crit_job="free", forever="free", timeout="free", lat="free",
                perm="id", top="pure", edges="none"), o),
            scenario_harness("nested-parent-timeout", Profile(
                templates=("N12",), timeout="always", timeout_scope="top", lat="free", window="free",
                window_scope="nested", perm="id", crit_job=False, edges="none"), o,
                required_notes=("c11_nested_cancelled",)),
            scenario_harness("nested1-parent-timeout-shutdown", Profile(
                templates=("N11",), timeout="always", timeout_scope="top", lat="free", sd="free", sdt="free",
                perm="id", crit_job=False, edges="none"), o, required_notes=("c11_nested_cancelled",)),
            scenario_harness("nested-success-with-forever-job-then-parent-timeout", Profile(
                templates=("N12",), forever="free", timeout="always", timeout_scope="top", sd="free",
                perm="id", crit_job=False, edges="none"), o, required_notes=("c11_nested_cancelled",)),
            scenario_harness("nested-sibling-critical", Profile(
                templates=("N12",), raises="free", crit_job="free", lat="free", perm="id", edges="none",
                crit_sched="free"), o, required_notes=("c11_nested_cancelled",)),
            scenario_harness("nested-forever", Profile(
                templates=("N12",), forever_sched="free", lat="free", sd="free", perm="id", crit_job=False,
                edges="none"), o, required_notes=("c11_nested_cancelled",)),
            scenario_harness("flat-verbose-outcomes", Profile(
                templates=("F3",), raises="free", crit_job="free", verbose=True, perm="id", top="free",
                edges="none"), o + [O.c04_verdict]),
        ]
    return [
        scenario_harness("flat-all-exits", Profile(
            templates=("F3",), raises="free", crit_job="free", forever="free", timeout="free", lat="free",
            sd="free", sdt="free", perm="id", window="free"), o),
        scenario_harness("nested-parent-timeout", Profile(
            templates=("N12", "N22", "D3"), timeout="always", timeout_scope="top", lat="free", sd="free",
            sdt="free", perm="id", crit_job=False), o, required_notes=("c11_nested_cancelled",)),
        scenario_harness("nested-timeouts-everywhere", Profile(
            templates=("N12", "D3"), timeout="free", lat="free", sd="free", perm="id", crit_job=False,
            edges="none"), o, required_notes=("c11_nested_cancelled",)),
        scenario_harness("nested-sibling-critical", Profile(
            templates=("N12", "N22", "D3"), raises="free", crit_job="free", lat="free", sd="free", perm="id",
            crit_sched="free"), o, required_notes=("c11_nested_cancelled",)),
        scenario_harness("nested-forever", Profile(
            templates=("N12", "D3"), forever_sched="free", forever="free", lat="free", sd="free", sdt="free",
            perm="id", crit_job=False), o, required_notes=("c11_nested_cancelled",)),
    ]
