"""C04 -- the verdict of a run, and its diagnosis, are exactly determined by what happened"""
from runner import Harness
from env.scenario import Profile, build, execute, redraw_for_rerun, TEMPLATES
from props.common import scenario_harness
from props import oracles as O

TITLE = "verdict and diagnosis"
OUTSIDE = ["more than 4 atomic jobs", "depth > 3", "why() text beyond its leading words"]
ASSUMPTIONS = ["where the statement does not say who wins a same-instant tie (completion exactly on the deadline, "
               "critical failure in the instant of the last completion) either verdict is accepted, but verdict, "
               "exception identity and diagnosis accessors must be mutually consistent"]


def rerun_harness(name, prof, tname):
    """the same scheduler object is run twice (no requirement edges: re-running a scheduler that has some is
    outside every claim, see DESIGN section 8): verdict and diagnosis of the second run must be determined by
    the second run alone"""
    def fn(api):
        run = build(api, prof, tname)
        execute(run)
        if run.outcome[0] not in ("ret", "exc"):
            api.assume(False)
        first = repr(run.outcome)
        redraw_for_rerun(api, run)
        execute(run)
        api.note("c04_reruns")
        O.c04_verdict(api, run)
        O.c02_exactly_once(api, run)
        api.sample({"template": tname, "first_run": first, "second_run_events": run.dump()[:30]})
    bounds = {"templates": {tname: TEMPLATES[tname]}, "runs_of_the_same_object": 2}
    bounds.update(prof.describe())
    return Harness(name, fn, bounds=bounds, free=[k for k, v in prof.describe().items() if v in ("free", "always")])


def harnesses(tier):
    o = [O.c04_verdict]
    req = ("c04_success", "c04_timeout", "c04_critical")
    if tier == "known":
        return [scenario_harness("kf1-only-forever-jobs", Profile(
            templates=("F2",), forever="free", timeout="free", top="free", perm="id", all_forever_ok=True), o)]
    if tier == "quick":
        return [
            scenario_harness("flat2-all", Profile(
                templates=("F2",), raises="free", crit_job="free", forever="free", timeout="free", top="free",
                top_crit="free", perm="id"), o, required_notes=req),
            scenario_harness("flat3-critical-timeout", Profile(
                templates=("F3",), raises="free", crit_job="free", timeout="always", top="sched",
                top_crit="free", perm="id", edges="none"), o, required_notes=req),
            scenario_harness("nested-chains", Profile(
                templates=("N11", "N12", "D3"), raises="free", crit_job="free", crit_sched="free",
                timeout="free", timeout_scope="nested", top="sched", top_crit="free", perm="id",
                edges="none"), o, required_notes=req),
            rerun_harness("rerun-flat2", Profile(
                raises="free", crit_job=True, timeout="free", top="sched", top_crit="free", perm="id",
                edges="none", kind="vjob"), "F2"),
        ]
    return [
        scenario_harness("flat3-all-ties", Profile(
            templates=("F3",), raises="free", crit_job="free", forever="free", timeout="free", top="free",
            top_crit="free", perm="two", ties=True, post=1), o, required_notes=req),
        scenario_harness("flat4-critical-timeout", Profile(
            templates=("F4",), raises="free", crit_job="free", timeout="free", top="sched", top_crit="free",
            perm="id", edges="chain"), o, required_notes=req),
        scenario_harness("nested-chains", Profile(
            templates=("N11", "N12", "D3", "D3b"), raises="free", crit_job="free", crit_sched="free",
            timeout="free", top="sched", top_crit="free", perm="id", forever="free"), o, required_notes=req),
    ]
