"""C15 -- cycle detection is exact; topological order is a valid linear extension"""
import re

from runner import Harness
from symx import Violation
from graphs.common import (GJob, GSched, GPure, make_jobs, ref_acyclic, capture)

TITLE = "cycle detection is exact; topological order is a valid linear extension"
TECHNIQUE = "solver-driven bounded-exhaustive symbolic execution of the real check_cycles/topological_order/list: every edge bit, the set-iteration order and the placement are z3 symbols case-split by the explorer (one path = one digraph; z3 certifies that the explored set is the whole space and yields the replayable model); oracle = Kahn's algorithm on the decided bits"
OUTSIDE = ["digraphs on 5 or more nodes", "random larger instances (sampling is outside this technique)",
           "the orderedset variant of BestSet (not installed)"]
ASSUMPTIONS = ["requirements are closed within the scheduler under test (edges only among its members)"]
RULE = ("one evaluation = one path = one (digraph, iteration order, placement, mutation); non-trivial = the digraph "
        "has at least one edge; all paths are pairwise different inputs")


def fail(what, info=None):
    raise Violation(what, {"info": info})


def check_order(sched, jobs, req, where):
    """sched's own level: jobs list, req dict (decided bits)"""
    acyc = ref_acyclic(jobs, req)
    # topological_order: bounded iteration (a correct implementation yields each job once)
    seen = []
    raised = None
    try:
        it = sched.topological_order()
        for k, j in enumerate(it):
            seen.append(j)
            if k > 4 * len(jobs) + 4:
                fail("C15: topological_order() does not stop (%s)" % where, _desc(jobs, req))
    except Violation:
        raise
    except Exception as e:
        raised = e
    if acyc:
        if raised is not None:
            fail("C15: topological_order() raised %r on an acyclic graph (%s)" % (raised, where), _desc(jobs, req))
        if len(seen) != len(jobs) or set(seen) != set(jobs):
            fail("C15: topological_order() yields %s, the jobs are %s (%s)" % (seen, jobs, where), _desc(jobs, req))
        pos = {j: i for i, j in enumerate(seen)}
        for j in jobs:
            for r in req[j]:
                if pos[r] > pos[j]:
                    fail("C15: topological_order() yields %s before its requirement %s (%s)" % (j, r, where),
                         _desc(jobs, req))
    else:
        if raised is None:
            fail("C15: topological_order() did not raise on a cyclic graph, yielded %s (%s)" % (seen, where),
                 _desc(jobs, req))
    return acyc


def _desc(jobs, req):
    return {str(j): sorted(str(r) for r in req[j]) for j in jobs}


def check_list(sched, all_jobs, where):
    """ids printed by list() are increasing along a valid topological order, every job once"""
    _, out = capture(sched.list)
    lines = [l for l in out.splitlines() if l.strip() and "--end--" not in l]
    ids = []
    for l in lines:
        m = re.match(r"^(\d+) ", l)
        if not m:
            fail("C15: unparsable line in list(): %r" % l)
        lab = re.search(r"`([^`]*)`", l)
        ids.append((int(m.group(1)), lab.group(1) if lab else None))
    labels = [lab for _, lab in ids]
    want = sorted(str(j) for j in all_jobs)
    if sorted(labels) != want:
        fail("C15: list() shows %s, the jobs are %s (%s)" % (labels, want, where))
    nums = [i for i, _ in ids]
    if nums != sorted(nums) or len(set(nums)) != len(nums):
        fail("C15: list() ids are not strictly increasing: %s (%s)" % (nums, where))
    byname = {str(j): j for j in all_jobs}
    num_of = {lab: i for i, lab in ids}
    for lab, j in byname.items():
        if j._sched_id is None or int(j._sched_id) != num_of[lab]:
            fail("C15: list() shows id %s for %s whose id is %r" % (num_of[lab], lab, j._sched_id))
        for r in j.required:
            if str(r) in num_of and num_of[str(r)] > num_of[lab]:
                fail("C15: list() numbers %s (%d) before its requirement %s (%d) (%s)"
                     % (lab, num_of[lab], r, num_of[str(r)], where))


def graph_harness(name, n, perm_mode, selfloops, placements, mutate, empty_node=False, history=False):
    def fn(api):
        jobs = make_jobs(api, n, perm_mode)
        if empty_node:
            # one of the nodes may be an empty nested scheduler (a job like any other, but falsy: it has __len__)
            k = api.choice("empty_sched_node", n + 1)
            if k < n:
                jobs[k] = GSched("j%d" % k, jobs[k]._vh)
        req = {j: set() for j in jobs}
        nedges = 0
        for a in jobs:
            for b in jobs:
                if a is b and not selfloops:
                    continue
                if api.flag("e_%s_%s" % (a, b)):       # b requires a
                    req[b].add(a)
                    b.required.add(a)                  # directly: requires() refuses self-loops
                    nedges += 1
        place = placements[api.choice("place", len(placements))]
        if nedges:
            api.note("nt")
        top, level = _place(place, jobs)
        if history:
            if api.flag("verbose"):
                top.verbose = True
                level.verbose = True
            if api.flag("abandoned_scan"):
                # a caller looks at the first job of the order and drops the generator
                try:
                    g = level.topological_order()
                    next(g)
                    del g
                except (StopIteration, Exception):
                    pass
        _verify(top, level, jobs, req, place)
        if mutate:
            pairs = [(a, b) for a in jobs for b in jobs if a is not b]
            a, b = pairs[api.choice("mut", len(pairs))]
            if a in req[b]:
                req[b].discard(a)
                b.requires(a, remove=True)
            else:
                req[b].add(a)
                b.requires(a)
            api.note("c15_mutations")
            _verify(top, level, jobs, req, place + "+mutated")
        api.sample({"n": n, "placement": place, "requires": _desc(jobs, req)})

    return Harness(name, fn, bounds={"nodes": n, "iteration_orders": perm_mode, "self_loops": selfloops,
                                     "placements": placements, "one_edge_toggled_and_rechecked": mutate},
                   free=["every ordered pair as an edge", "iteration order", "placement", "mutation"], cut0=10)


def _place(place, jobs):
    """returns (top scheduler, scheduler holding the graph)"""
    if place == "pure":
        s = GPure(*jobs)
        return s, s
    if place == "sched":
        s = GSched("S", 0, *jobs)
        return s, s
    if place == "nested1":
        inner = GSched("N", 1, *jobs)
        x = GJob("x", 0)
        inner.requires(x)
        return GSched("S", 0, x, inner), inner
    if place == "nested2":
        inner = GSched("N", 1, *jobs)
        y = GJob("y", 0)
        inner.requires(y)
        mid = GSched("M", 1, y, inner)
        x = GJob("x", 0)
        mid.requires(x)
        return GSched("S", 0, x, mid), inner
    if place == "nested2+tail":
        inner = GSched("N", 1, *jobs)
        y = GJob("y", 0)
        inner.requires(y)
        mid = GSched("M", 1, y, inner)
        x = GJob("x", 0)
        mid.requires(x)
        z = GJob("z", 2)
        z.requires(mid)
        return GSched("S", 0, x, mid, z), inner
    if place == "pure-over-nested":
        inner = GSched("N", 1, *jobs)
        x = GJob("x", 0)
        return GPure(x, inner), inner
    raise ValueError(place)


def _verify(top, level, jobs, req, place):
    acyc = check_order(level, jobs, req, place)
    try:
        got, _out = capture(top.check_cycles)
    except Exception as e:
        fail("C15: check_cycles() raised %s: %s (%s)" % (type(e).__name__, e, place), _desc(jobs, req))
    want = acyc
    if place.startswith("pure-over-nested"):
        want = True         # a PureScheduler only looks at its own level
    if got is not want:
        fail("C15: check_cycles() returned %r, the graph is %s (%s)" % (got, "acyclic" if acyc else "cyclic", place),
             _desc(jobs, req))
    if got is True and want is True and acyc:
        everybody = list(top.iterate_jobs(scan_schedulers=True))
        everybody = [j for j in everybody if j is not top]
        check_list(top, everybody, place)
    # asking twice gives the same answer (marks are reset)
    if capture(top.check_cycles)[0] is not got:
        fail("C15: check_cycles() answers differently the second time (%s)" % place, _desc(jobs, req))


def harnesses(tier):
    if tier == "quick":
        return [
            graph_harness("n3-all-orders-selfloops-mutation", 3, "free", True,
                          ["pure", "sched", "nested1", "nested2", "pure-over-nested"], True),
            graph_harness("n4-identity-order", 4, "id", False, ["pure", "nested1"], False),
            graph_harness("n3-with-an-empty-nested-scheduler", 3, "free", False, ["pure", "sched", "nested2+tail"],
                          False, empty_node=True),
            graph_harness("n3-verbose-or-after-an-abandoned-scan", 3, "two", True, ["pure", "sched", "nested1"],
                          False, history=True),
        ]
    return [
        graph_harness("n3-all-orders-selfloops-mutation", 3, "free", True,
                      ["pure", "sched", "nested1", "nested2", "pure-over-nested"], True),
        graph_harness("n4-all-orders", 4, "free", False, ["pure", "sched"], False),
        graph_harness("n4-selfloops-nested-mutation", 4, "two", True, ["nested1", "nested2", "nested2+tail"], True),
        graph_harness("n4-with-an-empty-nested-scheduler", 4, "free", False, ["pure", "sched", "nested2+tail"],
                      False, empty_node=True),
    ]
