"""C01 -- a job never starts before every one of its requirements has finished"""
from env.scenario import Profile
from props.common import scenario_harness, edit_before_run
from props import oracles as O

TITLE = "a job never starts before all its requirements finished"
BUDGET = {"quick": 240, "thorough": 900}
OUTSIDE = ["more than 5 atomic jobs", "nesting depth > 3", "iteration orders other than one total order per "
           "scheduler applied to all its job sets", "event loops other than the virtual-time loop"]
ASSUMPTIONS = ["requirement graphs are acyclic and closed by construction (edges only between siblings, "
               "from lower to higher index; the iteration order permutation decorrelates index and order)"]


def harnesses(tier):
    hs = []
    if tier == "quick":
        hs.append(scenario_harness(
            "flat-outcomes-window",
            Profile(templates=("F3",), raises="free", crit_job=False, window="free", perm="two"),
            [O.c01_requirements]))
        hs.append(scenario_harness(
            "flat-critical-timeout-forever",
            Profile(templates=("F3",), crit_job=False, forever="free", timeout="free",
                    perm="id", top="sched", verbose=True),
            [O.c01_requirements]))
        hs.append(scenario_harness(
            "inspected-and-edited-before-run",
            Profile(templates=("F3", "F4"), crit_job=False, perm="id", top="pure"),
            [O.c01_requirements, O.c12_unwindowed, O.c02_exactly_once], pre=edit_before_run))
        hs.append(scenario_harness(
            "nested-outcomes",
            Profile(templates=("N12", "D3", "E3", "E2"), raises="free", crit_job="free", crit_sched="free",
                    perm="two"),
            [O.c01_requirements]))
    else:
        hs.append(scenario_harness(
            "flat4-outcomes-window",
            Profile(templates=("F4",), raises="free", crit_job=False, window="free", perm="two"),
            [O.c01_requirements]))
        hs.append(scenario_harness(
            "flat3-everything",
            Profile(templates=("F3",), raises="free", crit_job="free", forever="free", timeout="free",
                    window="free", perm="free", verbose="free", post=1, ties=True),
            [O.c01_requirements]))
        hs.append(scenario_harness(
            "nested-everything",
            Profile(templates=("N12", "N22", "D3"), raises="free", crit_job="free", crit_sched="free",
                    window="free", timeout="free", timeout_scope="nested", perm="two"),
            [O.c01_requirements]))
    return hs
