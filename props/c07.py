"""C07 -- a window of N is never exceeded, and is scoped to its own scheduler"""
from env.scenario import Profile
from props.common import scenario_harness
from props import oracles as O

TITLE = "window never exceeded, scoped to its scheduler"
OUTSIDE = ["more than 5 atomic jobs", "windows larger than number of jobs + 1 (equivalent to no limit)"]
ASSUMPTIONS = ["a job 'executes its body' from body entry to return / raise / end of its cancellation handling"]


def harnesses(tier):
    o = [O.c07_window, O.c12_unwindowed]
    req = ("c07_concurrent",)
    if tier == "quick":
        return [
            scenario_harness("flat-window-outcomes", Profile(
                templates=("F3",), window="always", raises="free", crit_job="free", perm="two", top="pure"),
                o, required_notes=req),
            scenario_harness("flat4-window-nodeps-raises", Profile(
                templates=("F4",), window="always", edges="none", perm="id", top="pure", raises="free",
                crit_job=False), o, required_notes=req),
            scenario_harness("flat3-window-jobs-added-later", Profile(
                templates=("F3", "N12"), window="always", perm="id", crit_job=False, construct="add",
                window_via="free", edges="none"), o, required_notes=req),
            scenario_harness("flat4-window-instantaneous-bodies-with-yields", Profile(
                templates=("F4",), window="always", dur=0, pre=2, perm="id", top="pure", crit_job=False,
                edges="fanout"), o, required_notes=req),
            scenario_harness("flat4-window-three-entries-and-a-fresh-successor", Profile(
                templates=("F4",), window="always", dur=0, pre=2, perm="two", top="pure", crit_job=False,
                edges="firstlast"), o, required_notes=req),
            scenario_harness("nested-window-in-windowed-parent", Profile(
                templates=("S12", "N12"), window="always", perm="id", crit_job=False, edges="none"), o,
                required_notes=req),
            scenario_harness("flat3-window-forever", Profile(
                templates=("F3",), window="always", forever="free", perm="id", top="pure", crit_job=False),
                o, required_notes=req),
            scenario_harness("nested-windows-timeout", Profile(
                templates=("N12",), window="always", timeout="free", timeout_scope="top", lat="free",
                perm="id"), o, required_notes=req),
        ]
    return [
        scenario_harness("flat4-window-outcomes", Profile(
            templates=("F4",), window="always", raises="free", crit_job="free", perm="two"), o, required_notes=req),
        scenario_harness("flat5-window-nodeps", Profile(
            templates=("F5",), window="always", edges="none", perm="id"), o, required_notes=req),
        scenario_harness("nested-windows-all", Profile(
            templates=("N12", "N22", "N13"), window="always", timeout="free", raises="free", crit_job="free",
            lat="free", perm="id"), o, required_notes=req),
    ]
