"""C06 -- non-critical failures are contained: the rest of the run is unaffected (metamorphic)"""
from runner import Harness
from env.scenario import Profile, build, execute, CachedAPI, TEMPLATES
from props import oracles as O
from symx import sor, snot, implies, seq_

TITLE = "non-critical failures are contained (metamorphic pairs of runs)"
OUTSIDE = ["more than 4 atomic jobs", "depth > 2"]
ASSUMPTIONS = ["two runs in the same path: run B with a free subset of non-critical jobs switched to raising, run A "
               "with the same symbolic parameters and those jobs returning; other (possibly critical) jobs may raise "
               "in both runs alike"]
RULE = ("one evaluation = one feasible path of a pair of runs; non-trivial = at least one non-critical job was "
        "switched from returning to raising on that path")


def twin_harness(name, prof, templates, required_notes=("c06_switched",)):
    def fn(api):
        capi = CachedAPI(api)
        tname = templates[capi.choice("template", len(templates))]
        switched = {}

        def tweak_b(node):
            x = node.p["raises"]
            y = capi.bool("y_" + node.name)
            api.assume(implies(y, snot(O.truthy(node.p["crit"]))))
            api.assume(implies(y, snot(O.truthy(x))))
            switched[node.name] = y
            node.p = dict(node.p)
            node.p["raises"] = sor(x, y)

        run_b = build(capi, prof, tname, tweak=tweak_b)
        execute(run_b)
        run_a = build(capi, prof, tname)
        execute(run_a)
        compare(api, run_a, run_b, switched)
        api.sample({"template": tname, "B": run_b.dump()[:30], "A": run_a.dump()[:30]})

    bounds = {"templates": {t: TEMPLATES[t] for t in templates}}
    bounds.update(prof.describe())
    return Harness(name, fn, bounds=bounds, free=[k for k, v in prof.describe().items() if v in ("free", "two")],
                   required_notes=required_notes)


def _whose(run, exc):
    for j in run.jobs():
        if j.exc is exc:
            return j.name
    return type(exc).__name__


def compare(api, ra, rb, switched):
    """every observable of run B (some non-critical jobs raise) equals run A (they return)"""
    if api.possible(sor(*switched.values())):
        api.note("nt")
        api.note("c06_switched")
    if ra.outcome[0] != rb.outcome[0]:
        O.fail(api, "C06: outcome %r when the jobs return, %r when they raise" % (ra.outcome, rb.outcome), rb,
               {"A": ra.dump()})
    if ra.outcome[0] == "ret" and ra.outcome[1] != rb.outcome[1]:
        O.fail(api, "C06: run() returns %r when the jobs return, %r when they raise"
               % (ra.outcome[1], rb.outcome[1]), rb, {"A": ra.dump()})
    if ra.outcome[0] == "exc":
        xa, xb = ra.outcome[1], rb.outcome[1]
        if _whose(ra, xa) != _whose(rb, xb):
            O.fail(api, "C06: run() raises %r vs %r" % (xa, xb), rb, {"A": ra.dump()})
    extra = {"A": ra.dump()}
    for name, na in ra.nodes.items():
        nb = rb.nodes[name]
        for what, fa, fb in (("started", ra.started(na), rb.started(nb)),
                             ("finished", ra.finished(na), rb.finished(nb)),
                             ("was cancelled", ra.cancelled(na), rb.cancelled(nb)),
                             ("ended", ra.over(na), rb.over(nb))):
            if (fa is None) != (fb is None):
                O.fail(api, "C06: %s %s in one run and not in the other" % (name, what), rb, extra)
            if fa is not None:
                O.prove(api, seq_(fa.t, fb.t), "C06: %s %s at different times in the two runs" % (name, what), rb,
                        extra)
        fa, fb = ra.finished(na), rb.finished(nb)
        if fa is not None:
            if na.is_sched:
                if fa.kind != fb.kind or (fa.kind == "run_end" and fa.x != fb.x):
                    O.fail(api, "C06: verdict of %s differs: %r vs %r" % (name, fa, fb), rb, extra)
            else:
                if fa.kind != fb.kind:
                    # only allowed for a switched job
                    y = switched.get(name, False)
                    O.prove(api, y, "C06: outcome of %s differs although it was not switched" % name, rb, extra)
                    if nb.obj.raised_exception() is not nb.exc:
                        O.fail(api, "C06: the exception of the failed job %s is not retrievable" % name, rb, extra)
                    if not nb.obj.is_done():
                        O.fail(api, "C06: the failed job %s is not done" % name, rb, extra)
                elif fa.kind == "end":
                    if nb.obj.result() is not nb.sentinel or na.obj.result() is not na.sentinel:
                        O.fail(api, "C06: result of %s differs" % name, rb, extra)


def harnesses(tier):
    if tier == "quick":
        return [
            twin_harness("flat-window", Profile(raises=False, crit_job=False, window="free", perm="two",
                                                top="pure"), ("F3",)),
            twin_harness("flat-critical-mix", Profile(raises="free", crit_job="free", perm="id", top="sched",
                                                      top_crit="free", edges="free", verbose=True), ("F3",)),
            twin_harness("nested", Profile(raises=False, crit_job=False, crit_sched="free", perm="id",
                                           window="free", window_scope="nested"), ("N12",)),
        ]
    return [
        twin_harness("flat4-window", Profile(raises=False, crit_job=False, window="free", perm="two"), ("F4",)),
        twin_harness("flat3-critical-mix-window", Profile(raises="free", crit_job="free", perm="two",
                                                          window="free", post=1), ("F3",)),
        twin_harness("nested", Profile(raises="free", crit_job="free", crit_sched="free", perm="id",
                                       window="free"), ("N12", "N22", "D3")),
    ]
