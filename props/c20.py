"""C20 -- DOT export and listing describe the scheduler tree faithfully"""
import json
import os
import subprocess
import sys
import time

from runner import Harness, HERE
from symx import Violation

TITLE = "DOT export and listing describe the scheduler tree faithfully"
TECHNIQUE = "two solver-based parts: (S) bounded symbolic execution (symx/z3) of the real dot_format()/list() over tree templates, edge bits, flags and labels from a nasty set, output parsed by an independent DOT-subset parser and by the dot binary; (L) CrossHair (z3) with a symbolic Unicode label string through the real DotStyle quoting and dot_style(), checked by an independent attribute-list lexer"
OUTSIDE = ["labels longer than the CrossHair bound (3 characters quick, 4 thorough) are covered only through the "
           "nasty-label set of part S", "labels containing a backslash (excluded by the statement)",
           "trees deeper than 3 / more than 6 nodes", "graph()/PNG export (needs the graphviz bindings)",
           "empty nested schedulers as an endpoint of a requirement (known finding KF-3)"]
ASSUMPTIONS = ["link between parts L and S: between job.label and the attribute list the label is only formatted, "
               "never inspected (except the comparison with 'NOLABEL'); S checks the node attribute text "
               "against the same expected text as L"]
RULE = ("one evaluation = one path = one (tree template, edge set, flags, labels); non-trivial = the tree has a "
        "nested scheduler or an edge; CrossHair conditions are counted separately in coverage.crosshair")

NASTY = ['plain', 'a"b', 'two\nlines', 'a -> b', '{};[]=,', 'é✓ü', '', '//c', '/*x*/', '<b>', ' sp ', 'digraph',
         '#x', "it's", '"', '""', 'a"', '"a', '1', '-1.5', 'subgraph cluster_1 {', 'x"];y[z="']

SHAPES = {
    "flat2": ["j", "j"],
    "flat3": ["j", "j", "j"],
    "n1": ["j", ["j", "j"]],
    "n2": [["j"], ["j", "j"]],
    "n3": ["j", ["j"], ["j"]],
    "deep": ["j", ["j", ["j"]]],
    "deep2": [["j", ["j", "j"]], "j"],
    "empty": ["j", [], "j"],
    "emptyin": ["j", ["j", []]],
    "big": ["j", "j", ["j", "j", "j"], ["j", ["j"]], "j", "j"],       # 12 ids: two-digit numerals
    "ten": ["j", "j", "j", "j", "j", "j", ["j", "j", "j"]],           # exactly 10 ids: '10' next to one-digit ids
}


def fail(what, info):
    raise Violation(what, {"info": info})


def has_empty(node):
    if node["kind"] == "j":
        return False
    return not node["kids"] or any(has_empty(k) for k in node["kids"])


def atoms_under(node):
    if node["kind"] == "j":
        return [node]
    out = []
    for k in node["kids"]:
        out += atoms_under(k)
    return out


def structure_harness(name, shapes, label_mode, perm_two=False, allow_kf3=False, flags_mode="free",
                      edges_mode="free", history=False):
    from graphs.common import GJob, GSched, GPure
    from dot.parser import parse, DotSyntaxError
    from props.c15 import check_list

    def fn(api):
        shape = shapes[api.choice("shape", len(shapes))]
        cnt = [0]
        allnodes = []

        def mk(t, parent):
            cnt[0] += 1
            me = cnt[0]
            if label_mode == "nasty" and me in (2, 3):
                label = NASTY[api.choice("label%d" % me, len(NASTY))]
            else:
                label = "n%d" % me
            if flags_mode == "free":
                crit = api.flag("crit%d" % me)
                forever = api.flag("forever%d" % me) if me <= 2 else False
            else:
                crit, forever = (me % 2 == 0), (me % 3 == 0)
            node = {"kind": "j" if t == "j" else "s", "label": label, "crit": crit, "forever": forever,
                    "kids": [], "reqs": [], "parent": parent, "n": me}
            allnodes.append(node)
            vh = (me % 8) if not perm_two or not api_rev[0] else (7 - me % 8)
            if t == "j":
                node["obj"] = GJob(label, vh, critical=crit, forever=forever)
            else:
                node["kids"] = [mk(c, node) for c in t]
                node["obj"] = GSched(label, vh, *[k["obj"] for k in node["kids"]], critical=crit, forever=forever)
            return node
        api_rev = [api.flag("reverse_order") if perm_two else False]
        pure = api.flag("pure_top")
        kids = [mk(c, None) for c in SHAPES[shape]]
        top = GPure(*[k["obj"] for k in kids]) if pure else GSched("top", 0, *[k["obj"] for k in kids])
        levels = [kids] + [n["kids"] for n in allnodes if n["kind"] == "s"]
        nedges = 0
        kf3 = False
        for lv in levels:
            for i, a in enumerate(lv):
                for b in lv[i + 1:]:
                    if (api.flag("e_%d_%d" % (a["n"], b["n"])) if edges_mode == "free"
                            else (lv.index(b) == i + 1 and api.flag("e_%d_%d" % (a["n"], b["n"])))):
                        b["reqs"].append(a)
                        b["obj"].requires(a["obj"])
                        nedges += 1
                        if has_empty(a) or has_empty(b):
                            kf3 = True
        if kf3 and not allow_kf3:
            api.assume(False)       # known finding KF-3 (input class), recorded in known_findings.json
        edited = None
        if history and api.flag("listed_then_edited"):
            # history: the tree is listed (which computes cached reverse links at every level), then a job is taken
            # out of a nested scheduler through the public API, then exported
            from graphs.common import capture
            capture(top.list)
            cands = [n for n in allnodes if n["kind"] == "s" and len(n["kids"]) >= 2 and n["kids"][-1]["kind"] == "j"]
            if not cands:
                api.assume(False)
            holder = cands[api.choice("edit_in", len(cands))]
            victim = holder["kids"][-1]
            for sib in holder["kids"]:
                if victim in sib["reqs"]:
                    sib["obj"].requires(victim["obj"], remove=True)
                    sib["reqs"].remove(victim)
                    nedges -= 1
            nedges -= len(victim["reqs"])
            holder["obj"].remove(victim["obj"])
            holder["kids"].remove(victim)
            allnodes.remove(victim)
            edited = "list(); %s.remove(%s)" % (holder["label"], victim["label"])
            api.note("c20_listed_then_edited")
        if nedges or any(n["kind"] == "s" for n in allnodes):
            api.note("nt")
        info = {"shape": shape, "labels": {n["n"]: n["label"] for n in allnodes},
                "edges": [(a["n"], b["n"]) for b in allnodes for a in b["reqs"]], "history": edited}
        try:
            text = top.dot_format()
        except Exception as e:
            fail("C20: dot_format() raised %s: %s" % (type(e).__name__, e), info)
        info["dot"] = text
        try:
            g = parse(text)
        except DotSyntaxError as e:
            fail("C20: dot_format() is not valid DOT: %s" % e, info)
        check_structure(g, kids, allnodes, info)
        everybody = [n["obj"] for n in allnodes]
        if label_mode == "plain":
            check_list(top, everybody, shape)
        natoms = len([n for n in allnodes if n["kind"] == "j"])
        if api.mode == "sym":
            DOT_BATCH.append((text, natoms, nedges, api.model_values()))
        else:
            bad = dot_binary_check([(text, natoms, nedges, None)])
            if bad:
                fail(bad[0][1], info)
        api.note("c20_dot_binary")
        api.sample({k: info[k] for k in ("shape", "labels", "edges")})

    return Harness(name, fn, bounds={"shapes": {s: SHAPES[s] for s in shapes}, "labels": label_mode, "flags": flags_mode, "edges": edges_mode,
                                     "nasty_labels": NASTY if label_mode != "plain" else None},
                   free=["shape", "edge bits at every level", "critical/forever flags", "labels (from the nasty set)"],
                   cut0=8)


DOT_BATCH = []
DOT_BIN = "/usr/bin/dot"


def _run_dot(texts):
    """returns (exit code, list of (nodes, edges) per graph, stderr)"""
    import tempfile
    with tempfile.NamedTemporaryFile("w", suffix=".dot", delete=False, encoding="utf-8") as f:
        f.write("\n".join(texts))
        path = f.name
    try:
        r = subprocess.run([DOT_BIN, "-Tplain", path], capture_output=True, text=True, timeout=300)
    finally:
        os.unlink(path)
    graphs = []
    cur = None
    for line in r.stdout.splitlines():
        if line.startswith("graph "):
            cur = [0, 0]
        elif line.startswith("node ") and cur is not None:
            cur[0] += 1
        elif line.startswith("edge ") and cur is not None:
            cur[1] += 1
        elif line.startswith("stop") and cur is not None:
            graphs.append(tuple(cur))
            cur = None
    return r.returncode, graphs, r.stderr


def dot_binary_check(batch):
    """secondary syntax oracle: the dot binary must accept every export, with the node and edge counts of
    the tree.  Returns a list of (entry, message) for the exports it rejects."""
    if not os.path.exists(DOT_BIN) or not batch:
        return []
    bad = []

    def go(items):
        code, graphs, err = _run_dot([it[0] for it in items])
        if code == 0 and not err.strip() and len(graphs) == len(items) and \
                all(g == (it[1], it[2]) for g, it in zip(graphs, items)):
            return
        if len(items) == 1:
            it = items[0]
            bad.append((it, "C20: the dot binary rejects or misreads the export (exit %s, parsed %s, expected "
                            "%d nodes / %d edges): %s" % (code, graphs, it[1], it[2], err.strip()[:300])))
            return
        mid = len(items) // 2
        go(items[:mid])
        if not bad:
            go(items[mid:])
    for i in range(0, len(batch), 150):
        go(batch[i:i + 150])
        if bad:
            break
    return bad


def after_shard():
    """called by the runner in the worker after each shard: flush the batch through the dot binary"""
    batch, DOT_BATCH[:] = list(DOT_BATCH), []
    out = []
    for it, msg in dot_binary_check(batch):
        out.append({"what": msg, "detail": {"info": {"dot": it[0]}}, "values": it[3], "decisions": []})
    return out


def expected_attrs(node):
    """what the documentation promises: the label; schedulers keep sharp angles while jobs have rounded corners;
    forever items have a dashed border; critical ones a coloured and thicker border"""
    sid = node["obj"]._sched_id
    return {"label": "%s: %s" % (sid, node["label"]), "rounded": node["kind"] == "j", "dashed": bool(node["forever"]),
            "coloured": bool(node["crit"])}


def rendered(attrs):
    style = set(x for x in attrs.get("style", "").split(",") if x)
    return {"label": attrs.get("label"), "rounded": "rounded" in style, "dashed": "dashed" in style,
            "coloured": "color" in attrs}


def penwidths_ok(pairs):
    """critical borders are thicker than non-critical ones (when both kinds occur in the export)"""
    crit = [float(a.get("penwidth", 1)) for n, a in pairs if n["crit"]]
    other = [float(a.get("penwidth", 1)) for n, a in pairs if not n["crit"]]
    return not crit or not other or min(crit) > max(other)


def check_structure(g, kids, allnodes, info):
    ids = {}
    for n in allnodes:
        sid = n["obj"]._sched_id
        if sid is None or sid in ids:
            fail("C20: id %r of %r is missing or not unique in the tree" % (sid, n["label"]), info)
        ids[sid] = n
    # nodes: one node statement per atomic job, in the cluster of its scheduler
    stmts = list(g.all_node_stmts())
    seen = {}
    for sub, nid, attrs in stmts:
        if nid in seen:
            fail("C20: node %s is declared twice" % nid, info)
        seen[nid] = (sub, attrs)
    atoms = [n for n in allnodes if n["kind"] == "j"]
    if set(seen) != set(n["obj"]._sched_id for n in atoms):
        fail("C20: node statements %s, atomic jobs have ids %s" % (sorted(seen), sorted(n["obj"]._sched_id
                                                                                      for n in atoms)), info)

    def cluster_of(node):
        return None if node["parent"] is None else "cluster_%s" % node["parent"]["obj"]._sched_id
    pairs = []
    for n in atoms:
        sub, attrs = seen[n["obj"]._sched_id]
        pairs.append((n, attrs))
        if sub.name != (cluster_of(n) or g.name) or (cluster_of(n) is None) != (sub is g):
            fail("C20: node %s sits in %r, its scheduler's cluster is %r" % (n["obj"]._sched_id, sub.name,
                                                                            cluster_of(n)), info)
        if rendered(attrs) != expected_attrs(n):
            fail("C20: node %s is rendered as %r (attributes %r), documented: %r"
                 % (n["obj"]._sched_id, rendered(attrs), attrs, expected_attrs(n)), info)
    # clusters: one per nested scheduler, nested as the schedulers are
    subs = list(g.all_subgraphs())
    names = [s.name for s in subs]
    scheds = [n for n in allnodes if n["kind"] == "s"]
    want_names = ["cluster_%s" % n["obj"]._sched_id for n in scheds]
    if sorted(names) != sorted(want_names):
        fail("C20: clusters %s, nested schedulers are %s" % (sorted(names), sorted(want_names)), info)
    byname = {s.name: s for s in subs}
    for n in scheds:
        sub = byname["cluster_%s" % n["obj"]._sched_id]
        parent_name = None if n["parent"] is None else "cluster_%s" % n["parent"]["obj"]._sched_id
        got_parent = None if sub.parent is g else sub.parent.name
        if got_parent != parent_name:
            fail("C20: cluster %s is nested in %r, expected %r" % (sub.name, got_parent, parent_name), info)
        if sub.attrs.get("compound") != "true":
            pass
        want = expected_attrs(n)
        got = {k: v for k, v in sub.attrs.items() if k != "compound"}
        if rendered(got) != want:
            fail("C20: cluster %s is rendered as %r (attributes %r), documented: %r"
                 % (sub.name, rendered(got), got, want), info)
        pairs.append((n, got))
    try:
        ok = penwidths_ok(pairs)
    except ValueError:
        ok = False
    if not ok:
        fail("C20: critical jobs do not have a thicker border than the others: %s"
             % [(n["label"], a.get("penwidth")) for n, a in pairs], info)
    if g.attrs.get("compound") != "true":
        fail("C20: compound=true is missing: edges to clusters (lhead/ltail) would be ignored", info)
    # edges: exactly one per requirement, right endpoints
    want_edges = []
    for b in allnodes:
        for a in b["reqs"]:
            want_edges.append((a, b))
    got_edges = list(g.all_edges())
    if len(got_edges) != len(want_edges):
        fail("C20: %d edges in the DOT text, %d requirements" % (len(got_edges), len(want_edges)), info)
    used = set()
    for a, b in want_edges:
        match = None
        for k, (sub, src, dst, attrs) in enumerate(got_edges):
            if k in used:
                continue
            ok_src = (a["kind"] == "j" and src == a["obj"]._sched_id and "ltail" not in attrs) or \
                     (a["kind"] == "s" and attrs.get("ltail") == "cluster_%s" % a["obj"]._sched_id
                      and src in [x["obj"]._sched_id for x in atoms_under(a)])
            ok_dst = (b["kind"] == "j" and dst == b["obj"]._sched_id and "lhead" not in attrs) or \
                     (b["kind"] == "s" and attrs.get("lhead") == "cluster_%s" % b["obj"]._sched_id
                      and dst in [x["obj"]._sched_id for x in atoms_under(b)])
            extra = set(attrs) - {"lhead", "ltail"}
            if ok_src and ok_dst and not extra:
                match = k
                break
        if match is None:
            fail("C20: no edge for the requirement %s -> %s among %s" % (
                a["obj"]._sched_id, b["obj"]._sched_id, [(s, d, at) for _, s, d, at in got_edges]), info)
        used.add(match)


def harnesses(tier):
    if tier == "known":
        return [structure_harness("kf3-empty-endpoint", ["empty", "emptyin"], "plain", allow_kf3=True)]
    if tier == "crosshair":
        return label_replay_harnesses()
    if tier == "quick":
        return [structure_harness("structure", ["flat3", "n1", "n2", "deep", "empty", "emptyin"], "plain"),
                structure_harness("structure-big", ["big", "ten"], "plain", flags_mode="none", edges_mode="chain"),
                structure_harness("nasty-labels", ["flat2", "n1"], "nasty", flags_mode="none"),
                structure_harness("listed-then-edited", ["n1", "deep2", "n2"], "plain", flags_mode="none",
                                  history=True)]
    return [structure_harness("structure", ["flat3", "n1", "n2", "n3", "deep", "deep2", "empty", "emptyin"], "plain",
                              perm_two=True),
            structure_harness("structure-big", ["big", "ten"], "plain", flags_mode="none", edges_mode="chain"),
            structure_harness("nasty-labels", ["flat2", "n1", "deep"], "nasty", flags_mode="none"),
            structure_harness("listed-then-edited", ["n1", "deep2", "n2", "big"], "plain", flags_mode="none",
                              history=True)]


# ------------------------------------------------------------------------------------ part L: CrossHair
def label_replay_harnesses():
    def mk(fname):
        def fn(api):
            import dot.ch_labels as M
            M.MAXLEN = 10 ** 6
            label = api.values.get("label", "")
            args = [label]
            if fname != "protect_roundtrip":
                args += [bool(api.values.get("critical", False)), bool(api.values.get("forever", False))]
            r = getattr(M, fname)(*args)
            if r is not True:
                raise Violation("C20: %s(%s) does not survive quoting / is not rendered as documented"
                                % (fname, ", ".join(map(repr, args))), {"info": {"args": args}})
        return Harness("L-" + fname, fn)
    return [mk(f) for f in ("protect_roundtrip", "job_style", "cluster_style")]


CH_FUNCS = ("protect_roundtrip", "job_style", "cluster_style")


def extra_checks(tier, seed, log):
    """part L: CrossHair over symbolic label strings; one process per (function, exact label length)"""
    import ast
    import concurrent.futures as cf
    import re
    maxlen = 3 if tier == "quick" else 5
    timeout = 120 if tier == "quick" else 900
    env = dict(os.environ)
    env["PYTHONPATH"] = os.pathsep.join([HERE, os.environ.get("VERIF_REPO", "/repo")])
    jobs = [(f, n, False) for f in CH_FUNCS for n in range(0, maxlen + 1)]
    jobs += [(f + "_twin", 2, True) for f in CH_FUNCS]

    def run(job):
        f, n, twin = job
        t0 = time.time()
        try:
            r = subprocess.run([sys.executable, os.path.join(HERE, "dot", "ch_run.py"), f, str(n), str(timeout)],
                               env=env, capture_output=True, text=True, timeout=timeout * 3 + 60)
            line = [l for l in r.stdout.splitlines() if l.startswith("{")]
            if not line:
                return job, {"error": (r.stderr or r.stdout)[-500:], "seconds": round(time.time() - t0, 1)}
            return job, json.loads(line[-1])
        except subprocess.TimeoutExpired:
            return job, {"error": "timeout", "seconds": round(time.time() - t0, 1)}

    results = []
    with cf.ThreadPoolExecutor(max_workers=16) as ex:
        results = list(ex.map(run, jobs))
    ev = {"engine": "CrossHair 0.0.110 (z3), symbolic str label, symbolic critical/forever",
          "bounds": "label length 0..%d (one condition per exact length), any Unicode, no backslash" % maxlen,
          "per_condition_timeout_s": timeout, "conditions": [], "confirmed": 0, "inconclusive": 0,
          "twins_refuted": 0}
    violations = []
    for (f, n, twin), res in results:
        msgs = res.get("messages", [])
        states = [m["state"] for m in msgs]
        entry = {"function": f, "label_length": n, "seconds": res.get("seconds"), "states": states}
        if twin:
            ok = any(s in ("POST_FAIL",) for s in states)
            entry["twin_refuted"] = ok
            if ok:
                ev["twins_refuted"] += 1
            else:
                ev["inconclusive"] += 1
                entry["note"] = "reachability twin not refuted: vacuity cannot be excluded"
        elif states == ["CONFIRMED"]:
            ev["confirmed"] += 1
        elif any(s in ("POST_FAIL", "EXEC_ERR", "POST_ERR") for s in states):
            m = [m for m in msgs if m["state"] in ("POST_FAIL", "EXEC_ERR", "POST_ERR")][0]
            entry["counterexample"] = m["message"]
            mm = re.search(r"calling \w+\((.*)\)", m["message"], re.S)
            vals = {}
            if mm:
                try:
                    call = ast.parse("f(%s)" % mm.group(1), mode="eval").body
                    for kw in call.keywords:
                        vals[kw.arg] = ast.literal_eval(kw.value)
                    for name, a in zip(("label", "critical", "forever"), call.args):
                        vals[name] = ast.literal_eval(a)
                except Exception as e:
                    entry["parse_error"] = repr(e)
            violations.append({"harness": "L-" + f, "tier": "crosshair", "what": "C20: CrossHair counterexample: "
                               + m["message"][:300], "values": vals, "detail": None})
        else:
            ev["inconclusive"] += 1
            entry["note"] = res.get("error") or "not confirmed within the time budget"
        ev["conditions"].append(entry)
        log("  crosshair %-24s len=%d  %-28s %6ss" % (f, n, ",".join(states) or entry.get("note", "?")[:28],
                                                      res.get("seconds")))
    return {"violations": violations, "evidence": ev,
            "inconclusive": ev["inconclusive"], "evaluations": len(jobs), "nontrivial": ev["confirmed"]}
