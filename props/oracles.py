"""Trace oracles for C01-C14.  Every function takes (api, run) after the scenario was executed
and uses api.prove(...) for assertions that involve symbolic times/flags, so that an assertion
holds on the whole region of the path or yields a model.  Written once for symbolic and
concrete (replay) values.
"""
from symx import smax, smin, sand, sor, snot, implies, ite, seq_, is_sym, Violation

from env.scenario import Boom, BoomBase


# ------------------------------------------------------------------------------- helpers
def truthy(x):
    """truthiness of a library value without forking"""
    if is_sym(x):
        from symx import SBool, SInt
        if isinstance(x, SBool):
            return x
        return x != 0
    return bool(x)


def t_of(ev):
    return ev.t


# ---- known findings of the history class: predicates over the trace of the violating path.
# A violation is attributed to a finding only if (1) the finding is listed as open for the property being
# checked (VERIF_KNOWN, set by the runner from known_findings.json), (2) the failed clause belongs to one of the
# finding's properties, (3) the trace satisfies the predicate.  Everything else is reported.
def _kf2_cancelled_while_cancelling(run, what):
    """KF-2: a nested scheduler is cancelled by its enclosing scheduler while it is waiting for jobs that it
    has itself just cancelled (it is already in an exit path, or already handling a first cancellation)"""
    for s in run.scheds():
        if s.parent is None:
            continue
        names = {m.name: m for m in s.children}
        for c in run.evs(s.name, "tcancel"):
            for ev in run.events:
                if ev.seq >= c.seq:
                    break
                if ev.kind == "tcancel" and ev.who in names:
                    m = names[ev.who]
                    o = run.over(m)
                    if o is None or o.seq > c.seq:
                        return True
    return False


KNOWN_PREDICATES = {
    "KF-2": (("C11:", "C13:", "C05:", "C08:", "C09:"), _kf2_cancelled_while_cancelling),
}


def _active_known():
    import os
    return [k for k in os.environ.get("VERIF_KNOWN", "").split(",") if k]


def known_class(run, what):
    if run is None:
        return None
    for kid in _active_known():
        ent = KNOWN_PREDICATES.get(kid)
        if ent is None:
            continue
        prefixes, pred = ent
        if what.startswith(prefixes) and pred(run, what):
            return kid
    return None


def fail(api, what, run=None, extra=None):
    detail = {"trace": run.dump()} if run is not None else {}
    if extra:
        detail["info"] = extra
    kid = known_class(run, what)
    if kid is not None:
        detail["known_class"] = kid
        if api.mode == "sym":
            from symx import PathAbort
            api.known(kid)
            raise PathAbort("known:" + kid)
    raise Violation(what, detail)


def prove(api, cond, what, run, extra=None):
    try:
        api.prove(cond, what)
    except Violation as v:
        v.detail = {"trace": run.dump(), "info": extra}
        kid = known_class(run, what)
        if kid is not None:
            v.detail["known_class"] = kid
            if api.mode == "sym":
                api.known(kid)
                api.assume(cond)        # go on with the part of the region where this clause holds
                return
        raise


def run_over_ev(run, s):
    """the event that ends the run of scheduler node s"""
    return run.first(s.name, "run_end", "run_exc", "run_cancel")


def flag(node, key):
    return node.p[key]


def members_started_before(run, s, seq):
    return [m for m in s.children if run.started(m) is not None and run.started(m).seq < seq]


# ------------------------------------------------------------------------------- C01
def c01_requirements(api, run):
    """no node starts before each of its requirements finished (returned or raised);
    nothing inside a nested scheduler starts before that scheduler's run began"""
    n_checked = 0
    for n in run.all_nodes():
        starts = run.evs(n.name, "run_begin" if n.is_sched else "start")
        for s in starts:
            for r in n.reqs:
                f = run.finished(r)
                if f is None or f.seq > s.seq:
                    fail(api, "C01: %s started (#%d) before its requirement %s finished" % (n, s.seq, r), run)
                prove(api, f.t <= s.t, "C01: %s started at an earlier time than the end of %s" % (n, r), run)
                n_checked += 1
            if n.parent is not None:
                b = run.started(n.parent)
                if b is None or b.seq > s.seq:
                    fail(api, "C01: %s started before the run of its scheduler %s began" % (n, n.parent), run)
    if n_checked:
        api.note("nt")
        api.note("c01_req_checked", n_checked)


# ------------------------------------------------------------------------------- C02
def c02_exactly_once(api, run):
    for n in getattr(run, "removed", []):
        if run.evs(n.name, "start", "run_begin"):
            fail(api, "C02: %s was removed from the scheduler before the run and was started nevertheless" % n, run)
    for n in run.all_nodes():
        k = len(run.evs(n.name, "run_begin" if n.is_sched else "start"))
        if k > 1:
            fail(api, "C02: body of %s entered %d times" % (n, k), run)
    for s in run.scheds():
        e = run.first(s.name, "run_end")
        if e is None or e.x is not True:
            continue
        api.note("nt")
        api.note("c02_success_runs")
        for m in s.children:
            st = run.started(m)
            f = run.finished(m)
            ok = st is not None and f is not None and f.seq < e.seq and len(
                run.evs(m.name, "run_begin" if m.is_sched else "start")) == 1
            if ok:
                ok = bool(m.obj.is_done())
            prove(api, implies(snot(truthy(m.p["forever"])), ok),
                  "C02: run of %s reported success but non-forever job %s did not run to its end exactly once"
                  % (s, m), run)
        # ... "returned, or raised while non-critical": a critical job that raised strictly before the last
        # completion cannot be part of a success (same-instant ties: see C04)
        b = run.started(s)
        fins = [ite(truthy(m.p["forever"]), b.t, run.finished(m).t) for m in s.children
                if run.finished(m) is not None and run.finished(m).seq < e.seq]
        t_decide = smax(b.t, *fins)
        for m in s.children:
            r = run.first(m.name, "run_exc" if m.is_sched else "raise")
            if r is not None and r.seq < e.seq:
                prove(api, implies(truthy(m.p["crit"]), snot(r.t < t_decide)),
                      "C02: run of %s reported success although critical %s had raised before the last completion"
                      % (s, m), run)


# ------------------------------------------------------------------------------- C03
def admissible(api, run):
    """the admissibility predicate of C03 as a (symbolic) boolean"""
    conds = []
    for s in run.scheds():
        kids = s.children
        has_timeout = s.p["timeout"] is not None
        if not has_timeout:
            conds.append(sor(*[snot(truthy(m.p["forever"])) for m in kids]) if kids else False)
        jobs = [m for m in kids if not m.is_sched]
        for j in jobs:
            if j.p["never"] is False:
                continue
            if not has_timeout:
                conds.append(implies(truthy(j.p["never"]), truthy(j.p["forever"])))
        if not has_timeout:
            # nobody non-forever (transitively) downstream of a never-ending job
            down = {m.name: set() for m in kids}
            changed = True
            while changed:
                changed = False
                for m in kids:
                    for r in m.reqs:
                        new = {r.name} | down[r.name]
                        # here down[x] = set of upstream names of x
                        if not new <= down[m.name]:
                            down[m.name] |= new
                            changed = True
            byname = {m.name: m for m in kids}
            for m in kids:
                for up in down[m.name]:
                    u = byname[up]
                    if not u.is_sched and u.p["never"] is not False:
                        conds.append(implies(truthy(u.p["never"]), truthy(m.p["forever"])))
            w = s.p["window"]
            if w is not None:
                nn = 0
                for j in jobs:
                    if j.p["never"] is not False:
                        nn = nn + ite(truthy(j.p["never"]), 1, 0)
                conds.append(sor(seq_(w, 0), w > nn))
    return sand(*conds) if conds else True


def c03_progress(api, run):
    if run.outcome[0] == "exc" and not isinstance(run.outcome[1], (Boom, BoomBase, TimeoutError)):
        # neither a verdict nor one of the documented exceptions of a critical scheduler: the orchestration broke
        # down with jobs left over (typically ValueError('Set of Tasks/Futures is empty.'))
        unstarted = [n.name for n in run.top.children if run.started(n) is None]
        fail(api, "C03: run() does not finish the orchestration: it dies with %s: %s; never started: %s"
             % (type(run.outcome[1]).__name__, run.outcome[1], unstarted), run)
    if run.outcome[0] in ("deadlock", "horizon"):
        fail(api, "C03: run() does not terminate (%s): nothing ready and no timer armed" % run.outcome[0]
             if run.outcome[0] == "deadlock" else "C03: run() does not terminate (event-loop horizon reached)", run)
    api.note("nt")


# ------------------------------------------------------------------------------- C04
def _exc_of(run, m):
    """the exception object member m finished with (None if it did not raise)"""
    if m.is_sched:
        e = run.first(m.name, "run_exc")
        return e.x if e is not None else None
    e = run.first(m.name, "raise")
    return m.exc if e is not None else None


def c04_verdict(api, run):
    for s in run.scheds():
        b = run.started(s)
        if b is None:
            continue
        e = run.first(s.name, "run_end", "run_exc")
        if e is None:
            continue            # cancelled by its parent / still running: no verdict to check
        obj = s.obj
        T = s.p["timeout"]
        ft = truthy(obj.failed_time_out())
        fc = truthy(obj.failed_critical())
        why = obj.why()
        if e.kind == "run_end" and e.x is True:
            api.note("c04_success")
            api.note("nt")
            prove(api, snot(ft), "C04: failed_time_out() is truthy after a successful run of %s" % s, run)
            prove(api, snot(fc), "C04: failed_critical() is truthy after a successful run of %s" % s, run)
            if why != "FINE":
                fail(api, "C04: why() == %r after a successful run of %s" % (why, s), run)
            fins = []
            for m in s.children:
                f = run.finished(m)
                done = f is not None and f.seq < e.seq
                prove(api, implies(snot(truthy(m.p["forever"])), done),
                      "C04: %s reports success but non-forever %s has not finished" % (s, m), run)
                if done:
                    fins.append((m, f))
            nf_fins = [ite(truthy(m.p["forever"]), b.t, f.t) for m, f in fins]
            t_decide = smax(b.t, *nf_fins)
            for m in s.children:
                r = run.first(m.name, "run_exc" if m.is_sched else "raise")
                if r is not None and r.seq < e.seq:
                    prove(api, implies(truthy(m.p["crit"]), snot(r.t < t_decide)),
                          "C04: %s reports success although critical %s raised strictly before the last completion"
                          % (s, m), run)
            if T is not None:
                for m, f in fins:
                    prove(api, implies(snot(truthy(m.p["forever"])), f.t <= b.t + T),
                          "C04: %s reports success although %s finished after the timeout expired" % (s, m), run)
            continue
        # ---- failure
        api.note("nt")
        if e.kind == "run_end" and e.x is not False:
            fail(api, "C04: run of %s returned %r (neither True nor False)" % (s, e.x), run)
        crit_s = truthy(s.p["crit"])
        if e.kind == "run_end":
            prove(api, snot(crit_s), "C04: critical scheduler %s returned False instead of raising" % s, run)
        else:
            prove(api, crit_s, "C04: non-critical / pure scheduler %s raised %r instead of returning False"
                  % (s, e.x), run)
        prove(api, sor(ft, fc), "C04: run of %s failed but neither failed_time_out() nor failed_critical() "
              "names a cause (why()=%r)" % (s, why), run)
        prove(api, snot(sand(ft, fc)), "C04: both causes named after the failed run of %s" % s, run)
        # the branch below is decided by the solver when ft is symbolic
        if ft:
            api.note("c04_timeout")
            if T is None:
                fail(api, "C04: %s claims a timeout but has none" % s, run)
            prove(api, e.t >= b.t + T, "C04: %s reports a timeout before its deadline" % s, run)
            unfinished = []
            for m in s.children:
                f = run.finished(m)
                notdone = f is None or f.seq > e.seq
                unfinished.append(sand(snot(truthy(m.p["forever"])), notdone))
            prove(api, sor(*unfinished) if unfinished else False,
                  "C04: %s reports a timeout although all its non-forever jobs finished" % s, run)
            if "tim" not in why.lower():
                fail(api, "C04: why() == %r after a timeout of %s" % (why, s), run)
            if e.kind == "run_exc" and not isinstance(e.x, TimeoutError):
                fail(api, "C04: critical %s timed out but raised %r, not TimeoutError" % (s, e.x), run)
        else:
            api.note("c04_critical")
            culprits = []
            for m in s.children:
                x = _exc_of(run, m)
                r = run.first(m.name, "run_exc" if m.is_sched else "raise")
                if x is not None and r.seq < e.seq:
                    culprits.append((m, x))
            prove(api, sor(*[truthy(m.p["crit"]) for m, _ in culprits]) if culprits else False,
                  "C04: %s reports a critical failure but none of its critical jobs raised" % s, run)
            if "crit" not in why.lower():
                fail(api, "C04: why() == %r after a critical failure of %s" % (why, s), run)
            if e.kind == "run_exc":
                same = [truthy(m.p["crit"]) for m, x in culprits if x is e.x]
                prove(api, sor(*same) if same else False,
                      "C04: critical %s raised %r which is not the exception object of one of its critical jobs"
                      % (s, e.x), run)
    top = run.top
    if run.outcome[0] == "exc":
        e = run.first(top.name, "run_exc")
        if e is None or e.x is not run.outcome[1]:
            fail(api, "C04: run() raised %r which did not come out of the scheduler's run" % (run.outcome[1],), run)
    elif run.outcome[0] == "ret":
        e = run.first(top.name, "run_end")
        if e is None or e.x is not run.outcome[1]:
            fail(api, "C04: run() returned something else than co_run()", run)


# ------------------------------------------------------------------------------- bounds used by C05 / C08 / C09
def sd_bound(s, already=()):
    """upper bound of the duration of the shutdown phase of scheduler node s"""
    durs = [0]
    for m in s.children:
        durs.append(sd_bound(m) if m.is_sched else m.p["sd"])
    mx = smax(*durs)
    sdt = s.p["sdt"]
    if sdt is None:
        return mx
    never = [truthy(m.p.get("sd_never", False)) for m in s.children if not m.is_sched and m.p.get("sd_never", False) is not False]
    if never:
        return ite(sor(*never), smax(sdt, 0), smin(mx, smax(sdt, 0)))
    return smin(mx, smax(sdt, 0))


def lat_bound(s):
    """upper bound of the time the direct members of s need to honour a cancellation"""
    lats = [0]
    for m in s.children:
        if m.is_sched:
            lats.append(lat_bound(m) + sd_bound(m))
        else:
            lats.append(m.p["lat"])
    return smax(*lats)


def cancel_req(run, m):
    """the event at which m was told to stop: cancel() called on its task (for a nested scheduler the
    CancelledError only comes out of its run after it has cleaned up)"""
    return run.first(m.name, "tcancel") or run.cancelled(m)


def propagation(api, run, m, c, pid, why):
    """a nested scheduler m that is cancelled at event c passes the cancellation on at once: every atomic job
    below it whose body is executing then is cancelled in that same instant"""
    if not m.is_sched:
        return
    for j in m.descendants():
        if j.is_sched:
            continue
        st = run.started(j)
        if st is None or st.seq > c.seq:
            continue
        o = run.over(j)
        if o is not None and o.seq < c.seq:
            continue
        jc = run.first(j.name, "cancel")
        if jc is None:
            f = run.finished(j)
            if f is not None:
                prove(api, seq_(f.t, c.t), "%s: %s (inside %s) kept running after %s" % (pid, j, m, why), run)
                continue
            fail(api, "%s: %s (inside %s) was never cancelled although %s" % (pid, j, m, why), run)
        if jc.seq < c.seq:
            continue            # already being cancelled by its own scheduler (which was in an exit path itself)
        api.note("propagated_cancellations")
        prove(api, seq_(jc.t, c.t), "%s: %s (inside %s) was cancelled at another instant than %s was, %s"
              % (pid, j, m, m, why), run)


def task_of(m):
    return getattr(m.obj, "_task", None)


# ------------------------------------------------------------------------------- C05
def c05_critical_abort(api, run, require=False):
    found = False
    for s in run.scheds():
        if run.started(s) is None:
            continue
        # first raise of a critical direct member (the oracle itself may fork on the flag)
        e = None
        for ev in run.events:
            if ev.kind in ("raise", "run_exc") and ev.who in [m.name for m in s.children]:
                m = run.nodes[ev.who]
                if m.p["crit"]:
                    e = ev
                    break
        if e is None:
            continue
        over = run_over_ev(run, s)
        if over is None:
            if run.outcome[0] in ("deadlock", "horizon") and s.parent is None:
                fail(api, "C05: the run of %s never ended after the critical failure of %s" % (s, e.who), run)
            continue            # orphaned by its parent: C11 territory
        if over.kind == "run_cancel":
            continue            # s was itself cancelled by its parent meanwhile
        found = True
        api.note("nt")
        api.note("c05_critical_failures")
        t_e = e.t
        culprit = run.nodes[e.who]
        for m in s.children:
            if m is culprit:
                continue
            st = run.started(m)
            task = task_of(m)
            if st is not None:
                # (1) nothing starts at a later time
                prove(api, st.t <= t_e, "C05: %s started after the critical failure of %s" % (m, culprit), run)
                if task is not None and task._vseq > e.seq:
                    fail(api, "C05: %s was scheduled after the critical failure of %s and ran" % (m, culprit), run)
                # (2) running at e (or entering in that very instant): cancelled at t_e, or finished by itself at t_e
                f = run.over(m) if False else run.finished(m)
                if f is not None and f.seq < e.seq:
                    # finished before: (4) keeps its results
                    if not m.obj.is_done():
                        fail(api, "C05: %s had finished before the critical failure but is not done" % m, run)
                    if not m.is_sched:
                        if f.kind == "end" and m.obj.result() is not m.sentinel:
                            fail(api, "C05: %s lost its result" % m, run)
                        if f.kind == "raise" and m.obj.raised_exception() is not m.exc:
                            fail(api, "C05: %s lost its exception" % m, run)
                    continue
                c = cancel_req(run, m)
                if c is not None:
                    api.note("c05_cancelled_siblings")
                    prove(api, seq_(c.t, t_e), "C05: %s was cancelled at a different time than the critical "
                          "failure of %s" % (m, culprit), run)
                    propagation(api, run, m, c, "C05", "the critical failure of %s" % culprit)
                elif f is not None:
                    prove(api, seq_(f.t, t_e), "C05: %s was still running at the critical failure of %s and "
                          "was not cancelled" % (m, culprit), run)
                else:
                    fail(api, "C05: %s was running at the critical failure of %s and was neither cancelled "
                         "nor finished" % (m, culprit), run)
            else:
                if task is not None:
                    api.note("c05_queued_siblings")
                    if not task.done():
                        fail(api, "C05: %s was queued at the critical failure of %s; its task is still pending "
                             "after the run" % (m, culprit), run)
        # (3) the run ends without waiting for anybody's normal completion
        bound = t_e + lat_bound(s) + sd_bound(s)
        prove(api, over.t <= bound, "C05: the run of %s ended later than the critical failure + cancellation "
              "latencies + bounded shutdown" % s, run)
    if require and not found:
        api.assume(False)


# ------------------------------------------------------------------------------- C07
def c07_window(api, run):
    for s in run.scheds():
        w = s.p["window"]
        if w is None:
            continue
        names = {m.name: m for m in s.children}
        count = 0
        running = set()
        maxc = 0
        for ev in run.events:
            if ev.who not in names:
                continue
            m = names[ev.who]
            if ev.kind == ("run_begin" if m.is_sched else "start"):
                running.add(m.name)
                if len(running) > 1:
                    api.note("c07_concurrent")
                prove(api, implies(w >= 1, len(running) <= w),
                      "C07: %d jobs of %s run simultaneously, more than its window" % (len(running), s), run)
                api.note("nt")
            elif ev.kind in (("run_end", "run_exc", "run_cancel") if m.is_sched
                             else ("end", "raise", "cancel_done")):
                running.discard(m.name)


# ------------------------------------------------------------------------------- C12
def c12_unwindowed(api, run):
    """in a scheduler without window each member starts at the instant its last requirement finishes
    (entry jobs when the run begins) -- as long as the run of that scheduler is not over"""
    for s in run.scheds():
        w = s.p["window"]
        b = run.started(s)
        if b is None:
            continue
        over = run_over_ev(run, s)
        # instant at which the scheduler stops starting things (abort, timeout, success)
        for m in s.children:
            fins = [run.finished(r) for r in m.reqs]
            st = run.started(m)
            if any(f is None for f in fins):
                continue
            t_ready = smax(b.t, *[f.t for f in fins])
            unlimited = True if w is None else seq_(w, 0)
            if st is not None:
                api.note("nt")
                prove(api, implies(unlimited, seq_(st.t, t_ready)),
                      "C12: %s started at a different instant than the end of its last requirement" % m, run)
            else:
                # eligible and never started: legitimate only if the run of s was over (or ending) by then
                if over is None:
                    if run.outcome[0] in ("deadlock", "horizon"):
                        prove(api, snot(unlimited), "C12: %s is eligible, there is no window, and it never starts"
                              % m, run)
                    continue
                last = max(f.seq for f in fins) if fins else b.seq
                prove(api, implies(unlimited, snot(t_ready < _t_stop(run, s, over))),
                      "C12: %s became eligible strictly before the end of the run of %s and never started"
                      % (m, s), run)


def _t_stop(run, s, over):
    """earliest instant at which s stops scheduling: first cancel it sent / its end"""
    ts = [over.t]
    for m in s.children:
        c = cancel_req(run, m)
        if c is not None and c.seq < over.seq:
            ts.append(c.t)
    for ev in run.events:
        if ev.who == s.name and ev.kind == "ssd_begin" and ev.seq < over.seq:
            ts.append(ev.t)
    return smin(*ts)


def install_sampler(api, run, c12=True, c14=True):
    """quiescent-point sampling (called each time the clock is about to advance, at deadlock,
    and by the harness after the run) for C12's windowed clause and C14"""
    state = {"hist": {}, "samples": 0}

    def sample():
        state["samples"] += 1
        if c12:
            _c12_windowed_sample(api, run)
        if c14:
            _c14_sample(api, run, state)
    run.sampler = sample
    run.sampler_state = state
    return sample


def _running_members(run, s):
    out = []
    for m in s.children:
        if run.started(m) is not None and run.over(m) is None:
            out.append(m)
    return out


def _c12_windowed_sample(api, run):
    for s in run.scheds():
        w = s.p["window"]
        b = run.started(s)
        if b is None or run_over_ev(run, s) is not None:
            continue
        # not while s is cleaning up
        if any(ev.who == s.name and ev.kind == "ssd_begin" for ev in run.events):
            continue
        if any(cancel_req(run, m) is not None for m in s.children):
            continue
        nrun = len(_running_members(run, s))
        for m in s.children:
            if run.started(m) is not None:
                continue
            if all(run.finished(r) is not None for r in m.reqs):
                api.note("c12_eligible_waiting")
                if w is None:
                    fail(api, "C12: %s is eligible, %s has no window, yet it is not running at a quiescent point"
                         % (m, s), run)
                prove(api, sand(w >= 1, w <= nrun),
                      "C12: %s is eligible and waiting while only %d job(s) of %s run (window not full)"
                      % (m, nrun, s), run)


# ------------------------------------------------------------------------------- C14
def _c14_sample(api, run, state):
    hist = state["hist"]
    for n in run.all_nodes():
        if n.parent is None and n.p.get("pure"):
            continue
        if n.parent is None:
            continue    # the top-level scheduler is not a job of anybody
        o = n.obj
        idle, sched, running, done = bool(o.is_idle()), bool(o.is_scheduled()), bool(o.is_running()), \
            bool(o.is_done())
        cur = (sched, running, done)
        if idle == sched:
            fail(api, "C14: is_idle()=%s and is_scheduled()=%s for %s" % (idle, sched, n), run)
        if done and not running or running and not sched:
            fail(api, "C14: predicates of %s are not nested: scheduled=%s running=%s done=%s"
                 % (n, sched, running, done), run)
        prev = hist.get(n.name)
        if prev is not None:
            for a, b_, nm in zip(prev, cur, ("is_scheduled", "is_running", "is_done")):
                if a and not b_:
                    fail(api, "C14: %s() of %s reverted during the run" % (nm, n), run)
        hist[n.name] = cur
        st = run.started(n)
        fin = run.finished(n)
        if done != (fin is not None):
            # the body logs end/raise one step before the task is marked finished: both happen in the same
            # callback, so at a quiescent point they must agree
            fail(api, "C14: is_done()=%s for %s but its body %s" % (done, n, "finished" if fin else
                                                                    "has not finished by returning or raising"), run)
        if running != (st is not None):
            fail(api, "C14: is_running()=%s for %s but its body was %sentered" % (running, n, "" if st else "not "), run)
        elig = all(run.finished(r) is not None for r in n.reqs) and run.started(n.parent) is not None
        if not elig and not idle:
            fail(api, "C14: %s is not idle although a requirement has not finished" % n, run)
        tc = run.first(n.name, "tcancel")
        if tc is not None and fin is not None and fin.seq > tc.seq:
            # told to stop while it was running, and yet it "finished" at a strictly later time: a cancelled job
            # is never reported done (finishing by itself in the very instant of the cancellation is a tie)
            prove(api, snot(fin.t > tc.t), "C14: %s was cancelled while running and is reported done later on" % n, run)
        if fin is not None:
            api.note("nt")
            if fin.kind in ("end", "run_end"):
                res = o.result()
                want = n.sentinel if not n.is_sched else fin.x
                if res is not want:
                    fail(api, "C14: result() of %s is %r, its body returned %r" % (n, res, want), run)
                if o.raised_exception() is not None:
                    fail(api, "C14: raised_exception() of %s is %r, not None, although it returned"
                         % (n, o.raised_exception()), run)
            else:
                want = n.exc if not n.is_sched else fin.x
                if o.raised_exception() is not want:
                    fail(api, "C14: raised_exception() of %s is %r, its body raised %r"
                         % (n, o.raised_exception(), want), run)
        else:
            x = o.raised_exception()
            if x is not None and not isinstance(x, BaseException):
                fail(api, "C14: raised_exception() of %s is %r (neither an exception nor None) "
                     "although it has not raised" % (n, x), run)
            if x is not None and not done:
                fail(api, "C14: raised_exception() of %s is %r although its body has not raised" % (n, x), run)


# ------------------------------------------------------------------------------- C08
def c08_timeout(api, run):
    for s in run.scheds():
        T = s.p["timeout"]
        b = run.started(s)
        if T is None or b is None:
            continue
        D = b.t + T
        # (a) nothing starts at a time later than the deadline
        for m in s.children:
            st = run.started(m)
            if st is not None:
                prove(api, st.t <= D, "C08: %s started after the timeout of %s expired" % (m, s), run)
        over = run_over_ev(run, s)
        if over is None and s.parent is None and run.outcome[0] in ("deadlock", "horizon"):
            fail(api, "C08: %s has a timeout and its run never ended" % s, run)
        if over is None or over.kind == "run_cancel":
            continue
        api.note("nt")
        t_stop = _t_stop(run, s, over)
        prove(api, t_stop <= D, "C08: the run of %s was still going on after its timeout expired" % s, run)
        ft = truthy(s.obj.failed_time_out())
        if ft:
            api.note("c08_timeouts")
            prove(api, seq_(t_stop, D), "C08: %s declared a timeout at another instant than its deadline" % s, run)
            for m in s.children:
                st = run.started(m)
                task = task_of(m)
                f = run.finished(m)
                if st is not None:
                    if f is not None and f.seq < over.seq and cancel_req(run, m) is None:
                        # finished earlier: keeps its results
                        if not m.obj.is_done():
                            fail(api, "C08: %s finished before the timeout of %s but is not done" % (m, s), run)
                        if not m.is_sched and f.kind == "end" and m.obj.result() is not m.sentinel:
                            fail(api, "C08: %s lost its result after the timeout of %s" % (m, s), run)
                        continue
                    c = cancel_req(run, m)
                    if c is None:
                        fail(api, "C08: %s was running when the timeout of %s expired and was not cancelled"
                             % (m, s), run)
                    api.note("c08_cancelled")
                    prove(api, seq_(c.t, D), "C08: %s was cancelled at another instant than the expiry of %s"
                          % (m, s), run)
                    propagation(api, run, m, c, "C08", "the timeout of %s expired" % s)
                elif task is not None:
                    api.note("c08_queued")
                    if not task.done():
                        fail(api, "C08: %s was queued when the timeout of %s expired; its task is still pending"
                             % (m, s), run)
            prove(api, over.t <= D + lat_bound(s) + sd_bound(s),
                  "C08: the run of %s ended later than expiry + cancellation latencies + bounded shutdown" % s, run)
            if over.kind == "run_end" and over.x is not False:
                fail(api, "C08: %s timed out but returned %r" % (s, over.x), run)
            if over.kind == "run_exc" and not isinstance(over.x, TimeoutError):
                fail(api, "C08: %s timed out but raised %r" % (s, over.x), run)
        else:
            # no timeout verdict: if some non-forever job was still unfinished strictly after the deadline,
            # the timeout was ignored  (finishing exactly on the deadline may go either way)
            for m in s.children:
                f = run.finished(m)
                if f is not None and f.seq < over.seq:
                    prove(api, implies(snot(truthy(m.p["forever"])), f.t <= D),
                          "C08: non-forever %s finished after the deadline of %s and no timeout was declared"
                          % (m, s), run)


# ------------------------------------------------------------------------------- C09
def c09_forever(api, run):
    if run.outcome[0] in ("deadlock", "horizon"):
        top = run.top
        unfinished = [sand(snot(truthy(m.p["forever"])), run.finished(m) is None) for m in top.children]
        prove(api, sor(*unfinished) if unfinished else False,
              "C09: every non-forever job of %s has finished and its run never ends" % top, run)
    for s in run.scheds():
        b = run.started(s)
        over = run.first(s.name, "run_end")
        if b is None or over is None or over.x is not True:
            continue
        fins = []
        for m in s.children:
            f = run.finished(m)
            if f is not None and f.seq < over.seq:
                fins.append(ite(truthy(m.p["forever"]), b.t, f.t))
        if not s.children:
            continue
        t_star = smax(b.t, *fins)
        t_stop = _t_stop(run, s, over)
        has_forever = sor(*[truthy(m.p["forever"]) for m in s.children])
        if api.possible(has_forever):
            api.note("nt")
        prove(api, seq_(t_stop, t_star),
              "C09: %s did not stop at the instant its last non-forever job finished" % s, run)
        prove(api, over.t <= t_star + lat_bound(s) + sd_bound(s),
              "C09: the run of %s ended later than its last non-forever job + cancellation latencies + "
              "bounded shutdown" % s, run)
        for m in s.children:
            st = run.started(m)
            f = run.finished(m)
            if st is not None and (f is None or f.seq > over.seq):
                c = cancel_req(run, m)
                if c is None:
                    fail(api, "C09: %s was still running when %s ended successfully and was not cancelled"
                         % (m, s), run)
                api.note("c09_cancelled_forever")
                propagation(api, run, m, c, "C09", "%s ended" % s)
                prove(api, seq_(c.t, t_star), "C09: forever job %s was cancelled at another instant than the end "
                      "of the last non-forever job of %s" % (m, s), run)
                prove(api, truthy(m.p["forever"]), "C09: non-forever %s cancelled by a successful run" % m, run)
            if st is None:
                task = task_of(m)
                if task is not None and not task.done():
                    fail(api, "C09: %s was queued when %s ended; its task is still pending" % (m, s), run)
                # never starts later: C11 checks that nothing happens after the end


# ------------------------------------------------------------------------------- C10 (b): results of nested runs
def c10_nested_results(api, run):
    for s in run.scheds():
        if s.parent is None:
            continue
        e = run.first(s.name, "run_end", "run_exc")
        if e is None:
            continue
        api.note("nt")
        o = s.obj
        if not o.is_done():
            fail(api, "C10: nested %s finished its run but is not done as a job" % s, run)
        if e.kind == "run_end":
            if o.result() is not e.x:
                fail(api, "C10: result() of nested %s is %r, its run returned %r" % (s, o.result(), e.x), run)
            if e.x is False:
                api.note("c10_contained")
                prove(api, snot(truthy(s.p["crit"])), "C10: critical nested %s returned False" % s, run)
                # contained: the parent's run is not aborted by it: its siblings are not cancelled at that
                # instant because of it -- covered by C04/C05 at the parent's level
        else:
            api.note("c10_propagated")
            if o.raised_exception() is not e.x:
                fail(api, "C10: raised_exception() of nested %s is not the exception its run raised" % s, run)
            prove(api, truthy(s.p["crit"]), "C10: non-critical nested %s raised %r" % (s, e.x), run)
            if isinstance(e.x, (Boom, BoomBase)):
                # the very object raised by an atomic job somewhere below
                src = [j for j in s.descendants() if not j.is_sched and j.exc is e.x]
                if not src:
                    fail(api, "C10: %s raised a Boom that no job below it raised" % s, run)


# ------------------------------------------------------------------------------- C11
BODY_KINDS = ("start", "end", "raise", "cancel", "cancel_again", "cancel_done")
SD_KINDS = ("sd_begin", "sd_end", "sd_cancel")


def c11_clean_exit(api, run):
    if run.outcome[0] in ("deadlock", "horizon"):
        return
    loop = run.loop
    api.note("nt")
    pend = [t for t in loop.tasks if not t.done()]
    n_before = len(run.events)
    seq_ret = run.seq_return
    if pend:
        names = sorted(set(getattr(getattr(getattr(t, "_job", None), "_node", None), "name", None)
                           or "shutdown/other" for t in pend))
        fail(api, "C11: %d task(s) created by the run are still pending after run() returned (%s)"
             % (len(pend), ", ".join(map(str, names))), run)
    loop.run_idle()
    late = [e for e in run.events[n_before:] if e.kind in BODY_KINDS + SD_KINDS]
    if late:
        fail(api, "C11: job activity after run() returned: %s" % late[:4], run)
    for s in run.scheds():
        over = run_over_ev(run, s)
        if over is None:
            if run.started(s) is not None:
                fail(api, "C11: the run of %s began and never ended although run() returned" % s, run)
            continue
        if s.parent is not None and over.kind == "run_cancel":
            api.note("c11_nested_cancelled")
        under = {n.name for n in s.descendants()}
        for e in run.events:
            if e.seq > over.seq and e.who in under and e.kind in BODY_KINDS:
                fail(api, "C11: %s(%s) happened after the run of %s was over" % (e.kind, e.who, s), run)
    for n in run.jobs():
        nb = len(run.evs(n.name, "sd_begin"))
        ne = len(run.evs(n.name, "sd_end", "sd_cancel"))
        if nb != ne:
            fail(api, "C11: a shutdown handler of %s is still pending" % n, run)


# ------------------------------------------------------------------------------- C13
def c13_shutdown(api, run):
    if run.outcome[0] in ("deadlock", "horizon"):
        return
    api.note("nt")
    for n in run.jobs():
        k = len(run.evs(n.name, "sd_begin"))
        if k != 1:
            fail(api, "C13: %s received co_shutdown() %d times by the end of the run" % (n, k), run)
    for s in run.scheds():
        over = run_over_ev(run, s)
        names = {m.name: m for m in s.children}
        if over is not None and over.kind in ("run_end", "run_exc") and run.started(s) is not None \
                and s.children:
            for m in s.children:
                evs = run.evs(m.name, "ssd_begin" if m.is_sched else "sd_begin")
                if not evs or evs[0].seq > over.seq:
                    fail(api, "C13: %s had not received co_shutdown() when the run of its scheduler %s ended"
                         % (m, s), run)
        # never while a member of the same scheduler is still running
        running = set()
        for ev in run.events:
            if ev.who in names:
                m = names[ev.who]
                if ev.kind == ("run_begin" if m.is_sched else "start"):
                    running.add(m.name)
                elif ev.kind in (("run_end", "run_exc", "run_cancel") if m.is_sched
                                 else ("end", "raise", "cancel_done")):
                    running.discard(m.name)
                elif (ev.kind == "sd_begin" and running) or \
                        (ev.kind == "ssd_begin" and running and m.name not in running):
                    # (a nested scheduler broadcasts to its own jobs from inside its own run: that is not a
                    # shutdown *received* while it runs; an atomic job receiving it while it runs itself is)
                    fail(api, "C13: %s received co_shutdown() while %s of the same scheduler %s is still running"
                         % (m, sorted(running), s), run)
        # bounded phase
        sdt = s.p["sdt"]
        bs = run.evs(s.name, "ssd_begin")
        es = run.evs(s.name, "ssd_end", "ssd_cancel")
        if bs and es and sdt is not None:
            api.note("c13_bounded_phase")
            prove(api, es[0].t - bs[0].t <= smax(sdt, 0),
                  "C13: the shutdown phase of %s lasted longer than its shutdown_timeout" % s, run)
        if bs and es and es[0].kind == "ssd_end":
            for m in s.children:
                c = run.first(m.name, "ssd_cancel" if m.is_sched else "sd_cancel")
                if c is not None and bs[0].seq < c.seq < es[0].seq:
                    api.note("c13_handlers_cancelled")
                    if sdt is None:
                        fail(api, "C13: the shutdown handler of %s was cancelled although %s has no shutdown_timeout"
                             % (m, s), run)
                    prove(api, c.t - bs[0].t >= sdt, "C13: the shutdown handler of %s was cancelled before the "
                          "shutdown_timeout of %s had elapsed" % (m, s), run)
        if bs and es and es[0].kind == "ssd_end" and s.children:
            cancelled = [m for m in s.children
                         if run.first(m.name, "ssd_cancel" if m.is_sched else "sd_cancel") is not None
                         and bs[0].seq < run.first(m.name, "ssd_cancel" if m.is_sched else "sd_cancel").seq < es[0].seq]
            r = es[0].x
            if len(bs) == 1 or True:
                if cancelled and r is not False:
                    fail(api, "C13: co_shutdown() of %s returned %r although handlers had to be cancelled" % (s, r), run)
                if not cancelled and r is not True:
                    fail(api, "C13: co_shutdown() of %s returned %r although no handler had to be cancelled" % (s, r), run)


def c13_later_shutdown_sends_nothing(api, run):
    """after the run, an explicit shutdown() sends nothing more"""
    if run.outcome[0] in ("deadlock", "horizon"):
        return
    n_before = len(run.events)
    import asyncio
    asyncio.set_event_loop(run.loop)
    try:
        run.top.obj.shutdown()
    except Exception as e:
        fail(api, "C13: a later shutdown() raised %r" % (e,), run)
    late = [e for e in run.events[n_before:] if e.kind in SD_KINDS]
    if late:
        fail(api, "C13: a later explicit shutdown() sent co_shutdown() again: %s" % late[:3], run)
    api.note("c13_later_shutdown")


# ------------------------------------------------------------------------------- C17 after a run
def c17_after_run(api, run):
    """a run computes the reverse links when it starts and must leave them as they are: afterwards the queries
    still agree with the requirements, also with the documented shortcut compute_backlinks=False"""
    if run.outcome[0] != "ret":
        return
    for s in run.scheds():
        if run.first(s.name, "run_end") is None:
            continue
        api.note("nt")
        for m in s.children:
            want = set(k.obj for k in s.children if m in k.reqs)
            for flag_ in (False, True):
                got = list(s.obj.successors(m.obj, compute_backlinks=flag_))
                if set(got) != want or len(got) != len(set(got)):
                    fail(api, "C17: after the run, successors(%s, compute_backlinks=%s) of %s = %s, expected %s"
                         % (m, flag_, s, sorted(str(getattr(x, "_node", x)) for x in got),
                            sorted(str(k) for k in s.children if m in k.reqs)), run)
        want = set(m.obj for m in s.children if not any(m in k.reqs for k in s.children))
        got = set(s.obj.exit_jobs(discard_forever=False, compute_backlinks=False))
        if got != want:
            fail(api, "C17: after the run, exit_jobs(compute_backlinks=False) of %s is wrong" % s, run)
    for s in run.scheds():
        if run.started(s) is None or len(s.children) < 2:
            continue
        # the graph is edited after the run (whatever way the run of s ended), then queried again
        a, b = s.children[0], s.children[-1]
        if a in b.reqs:
            b.obj.requires(a.obj, remove=True)
            b.reqs.remove(a)
        else:
            b.obj.requires(a.obj)
            b.reqs.append(a)
        api.note("c17_edits_after_run")
        for m in s.children:
            want = set(k.obj for k in s.children if m in k.reqs)
            got = list(s.obj.successors(m.obj))
            if set(got) != want or len(got) != len(set(got)):
                fail(api, "C17: after the run and an edit, successors(%s) of %s = %s, expected %s"
                     % (m, s, sorted(str(getattr(x, "_node", x)) for x in got),
                        sorted(str(k) for k in s.children if m in k.reqs)), run)
