"""C08 -- timeout bounds the run"""
from env.scenario import Profile
from props.common import scenario_harness
from props import oracles as O

TITLE = "timeout: at expiry everything is cancelled and the run fails"
OUTSIDE = ["more than 4 atomic jobs", "jobs that ignore cancellation", "floating-point rounding of deadlines"]
ASSUMPTIONS = ["the timeout governs the orchestration phase; the shutdown phase that follows is bounded by "
               "shutdown_timeout (C13)", "a completion falling exactly on the deadline may go either way"]


def harnesses(tier):
    o = [O.c08_timeout, O.c04_verdict]
    req = ("c08_timeouts", "c08_cancelled")
    if tier == "quick":
        return [
            scenario_harness("flat-never-window", Profile(
                templates=("F3",), timeout="always", never="free", window="free", perm="id", top="pure",
                crit_job=False), o, required_notes=req + ("c08_queued",)),
            scenario_harness("flat-lat-sd", Profile(
                templates=("F2",), timeout="always", lat="free", sd="free", sdt="free", perm="id", top="free",
                top_crit="free", crit_job=False), o + [O.c13_shutdown], required_notes=req),
            scenario_harness("nested-own-clock", Profile(
                templates=("N12",), timeout="free", never="free", perm="id", crit_sched="free", crit_job=False),
                o, required_notes=req),
            scenario_harness("nested-propagation", Profile(
                templates=("N12",), timeout="always", timeout_scope="top", sd="free", lat="free", perm="id",
                crit_job=False, edges="none"), o, required_notes=req + ("propagated_cancellations",)),
        ]
    return [
        scenario_harness("flat4-never-window", Profile(
            templates=("F4",), timeout="always", never="free", window="free", perm="two", crit_job=False), o,
            required_notes=req + ("c08_queued",)),
        scenario_harness("flat3-lat-sd-outcomes", Profile(
            templates=("F3",), timeout="always", lat="free", sd="free", sdt="free", raises="free", crit_job="free",
            perm="id", top="free", top_crit="free"), o, required_notes=req),
        scenario_harness("nested-own-clock", Profile(
            templates=("N12", "N22", "D3"), timeout="free", never="free", perm="id", crit_sched="free",
            crit_job=False, window="free", window_scope="nested"), o, required_notes=req),
    ]
