"""C13 -- shutdown reaches every job exactly once, at its scheduler's end, in bounded time"""
from runner import Harness
from env.scenario import Profile, build, execute_shutdown_only, TEMPLATES
from props.common import scenario_harness
from props import oracles as O

TITLE = "shutdown reaches every job exactly once, at its scheduler's end, in bounded time"
OUTSIDE = ["depth > 3", "handlers that raise (documented as unspecified)", "handlers that ignore cancellation"]
ASSUMPTIONS = ["handlers honour cancellation at once"]


def shutdown_only(name, prof, templates):
    def fn(api):
        tname = templates[api.choice("template", len(templates))]
        run = build(api, prof, tname)
        execute_shutdown_only(run)
        if run.outcome[0] != "ret":
            O.fail(api, "C13: explicit shutdown() of a never-run tree: %r" % (run.outcome,), run)
        O.c13_shutdown(api, run)
        O.c11_clean_exit(api, run)
        O.c13_later_shutdown_sends_nothing(api, run)
        api.sample({"template": tname, "events": run.dump()[:30], "returned": repr(run.outcome)})
    bounds = {"templates": {t: TEMPLATES[t] for t in templates}}
    bounds.update(prof.describe())
    return Harness(name, fn, bounds=bounds, free=[k for k, v in prof.describe().items() if v in ("free", "always")])


def harnesses(tier):
    o = [O.c13_shutdown, O.c13_later_shutdown_sends_nothing]
    if tier == "quick":
        return [
            scenario_harness("flat-exits", Profile(
                templates=("F2",), raises="free", crit_job="free", timeout="free", sd="free", sdt="free",
                perm="id", top="pure", forever="free"), o, required_notes=("c13_bounded_phase",)),
            scenario_harness("flat-exits-verbose", Profile(
                templates=("F2",), timeout="free", sd="free", sdt="always", perm="id", top="free", verbose=True,
                crit_job=False), o + [O.c04_verdict], required_notes=("c13_bounded_phase",)),
            scenario_harness("nested-exits", Profile(
                templates=("N12",), raises="free", crit_job="free", crit_sched="free", timeout="free",
                timeout_scope="top", perm="id", edges="none"), o),
            scenario_harness("nested1-parent-ends-during-nested-shutdown", Profile(
                templates=("N11",), timeout="always", timeout_scope="top", lat="free", sd="free", sdt="free",
                perm="id", crit_job=False, edges="none"), o + [O.c11_clean_exit]),
            scenario_harness("nested1-both-time-out-with-latency", Profile(
                templates=("N11",), timeout="always", lat="free", perm="id", crit_job=False, edges="none"),
                o + [O.c11_clean_exit]),
            shutdown_only("explicit-never-run", Profile(sd="free", sdt="free", perm="id"), ("F2", "N11", "N12")),
        ]
    return [
        scenario_harness("flat-exits", Profile(
            templates=("F3",), raises="free", crit_job="free", timeout="free", sd="free", sdt="free",
            perm="id", forever="free", window="free"), o, required_notes=("c13_bounded_phase",)),
        scenario_harness("nested-exits", Profile(
            templates=("N12", "N22", "D3"), raises="free", crit_job="free", crit_sched="free", timeout="free",
            perm="id", sd="free"), o),
        shutdown_only("explicit-never-run", Profile(sd="free", sdt="free", perm="two"),
                      ("F3", "N12", "N22", "D3", "E")),
    ]
