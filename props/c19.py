"""C19 -- the construction API builds exactly the documented requirement edges"""
from runner import Harness
from symx import Violation
from graphs.common import GJob, GSched, GPure, Sequence

TITLE = "the construction API builds exactly the documented requirement edges"
TECHNIQUE = "solver-driven bounded-exhaustive symbolic execution of the real Sequence/requires/add/update/remove code on short API programs: statement kinds and operands are z3 symbols case-split by the explorer; oracle = a reference interpreter of the documented semantics (written from the docstrings), compared after every statement"
OUTSIDE = ["programs of more than 4 statements", "operands outside the listed grammar (generators, other iterables)",
           "removal through a set with several elements (iteration order would decide which KeyError comes first)"]
ASSUMPTIONS = ["documented semantics as read from the docstrings of Sequence, AbstractJob.requires, "
               "PureScheduler.add/update/remove (see props/c19.py: class Model)"]
RULE = ("one evaluation = one path = one program (sequence of API calls with operands); non-trivial = the program "
        "contains at least one Sequence construction or append")


class Model:
    """reference interpreter of the documented semantics"""

    def __init__(self, jobs):
        self.req = {j: set() for j in jobs}
        self.members = set()
        self.seqs = {}          # id(library Sequence) -> {"jobs": [...], "sched": bool}

    def isseq(self, x):
        return isinstance(x, Sequence)

    def seq(self, x):
        return self.seqs[id(x)]

    def flatten(self, items):
        out = []
        for x in items:
            if x is None:
                continue
            if self.isseq(x):
                out += list(self.seq(x)["jobs"])
            else:
                out.append(x)
        return out

    def flat_req(self, arg):
        """jobs named by a requirement argument, in order"""
        if arg is None:
            return []
        if self.isseq(arg):
            js = self.seq(arg)["jobs"]
            return [js[-1]] if js else []
        if isinstance(arg, (list, tuple, set, frozenset)):
            out = []
            for x in arg:
                out += self.flat_req(x)
            return out
        return [arg]

    def requires(self, j, args, remove=False):
        for arg in args:
            for r in self.flat_req(arg):
                if remove:
                    if r not in self.req[j]:
                        raise KeyError(r)
                    self.req[j].discard(r)
                elif r is not j:
                    self.req[j].add(r)

    def chain(self, jobs):
        for x, y in zip(jobs, jobs[1:]):
            self.requires(y, [x])

    def new_sequence(self, lib, items, required, in_sched):
        jobs = self.flatten(items)
        self.chain(jobs)
        if jobs:
            self.requires(jobs[0], [required])
        self.seqs[id(lib)] = {"jobs": jobs, "sched": in_sched, "lib": lib}
        if in_sched:
            self.members |= set(jobs)

    def append(self, lib, items):
        s = self.seq(lib)
        new = self.flatten(items)
        if not new:
            return
        self.chain(new)
        if s["jobs"]:
            self.requires(new[0], [s["jobs"][-1]])
        s["jobs"] = s["jobs"] + new
        if s["sched"]:
            self.members |= set(new)

    def seq_requires(self, lib, args):
        s = self.seq(lib)
        if s["jobs"]:
            self.requires(s["jobs"][0], args)

    def add(self, xs):
        self.members |= set(self.flatten(xs))

    def remove(self, j):
        if j not in self.members:
            raise KeyError(j)
        self.members.discard(j)


def _isgen(y):
    return isinstance(y, tuple) and len(y) == 2 and y[0] == "gen"


def describe(x):
    if _isgen(x):
        return "(x for x in %s)" % describe(list(x[1]))
    if isinstance(x, frozenset):
        return "frozenset(%s)" % describe(list(x))
    if isinstance(x, Sequence):
        return "Seq%s" % [str(j) for j in x.jobs]
    if isinstance(x, (list, tuple, set)):
        body = ", ".join(describe(y) for y in x)
        return {list: "[%s]", tuple: "(%s)", set: "{%s}"}[type(x)] % body
    return str(x)


def program_harness(name, nstmts, kinds, level="full"):
    full_tables = level == "full"
    def fn(api):
        a, b, c, d = [GJob(n, i) for i, n in enumerate("abcd")]
        jobs = [a, b, c, d]
        pure = api.flag("pure")
        S = GPure() if pure else GSched("S", 7)
        model = Model(jobs)
        var = {"q0": None, "q1": None}
        prog = []
        info = {"program": prog}
        nontrivial = False

        def fresh_empty():
            e = Sequence()
            model.new_sequence(e, [], None, False)
            return e

        Z = GSched("Z", 6)              # an empty nested scheduler is a job like any other
        NS = GSched("NS", 5, GJob("inner", 3))
        model.req[Z] = set()
        model.req[NS] = set()

        shared_set = {c}            # one set object, possibly handed to several calls

        def req_args():
            t = [None, a, b, [a, b], (a, [b]), shared_set, [None, [c], d], [[]], Z, [NS, Z], frozenset([d]),
                 ("gen", (a, b))]
            for q in ("q0", "q1"):
                if var[q] is not None:
                    t.append(var[q])
            if var["q0"] is not None:
                t.append([var["q0"], a])
            t.append(fresh_empty())
            if level == "mini":
                return [None, a, b, [None, [c], d], Z] + t[12:]
            return t if full_tables else t[:2] + t[3:4] + t[5:7] + t[8:]

        def seq_items():
            t = [(), (a,), (a, b), (a, None, b), (c, d), (b, a), (None,)]
            if var["q0"] is not None:
                t += [(var["q0"], c), (d, var["q0"])]
            if var["q0"] is not None and var["q1"] is not None:
                t.append((var["q0"], var["q1"]))
            t.append((a, fresh_empty(), d))
            t.append((fresh_empty(),))
            if level == "mini":
                return [(a, b), (c, None, d)] + t[7:9] + t[-1:]
            return t if full_tables else [x for i, x in enumerate(t) if i not in (4, 5)]

        for k in range(nstmts):
            tag = str(k)
            kind = kinds[api.choice("kind" + tag, len(kinds))]
            call = None
            mcall = None
            if kind == "ctor":
                v = ("q0", "q1")[api.choice("var" + tag, 2)]
                items = seq_items()
                it = items[api.choice("items" + tag, len(items))]
                rtab = [None, c, [c, d]] + [var[q] for q in ("q0", "q1") if var[q] is not None]
                if level == "mini":
                    rtab = rtab[:2]
                r = rtab[api.choice("required" + tag, len(rtab))]
                ins = api.flag("sched" + tag) if level != "mini" else False
                prog.append("%s = Sequence(%s, required=%s, scheduler=%s)"
                            % (v, ", ".join(describe(x) for x in it), describe(r), "S" if ins else None))
                nontrivial = True

                def call(it=it, r=r, ins=ins, v=v):
                    var[v] = Sequence(*it, required=r, scheduler=S if ins else None)

                def mcall(it=it, r=r, ins=ins, v=v):
                    model.new_sequence(var[v], it, r, ins)
                # the model needs the library object as key: run library first, then model (below)
            elif kind == "append":
                defined = [q for q in ("q0", "q1") if var[q] is not None]
                if not defined:
                    api.assume(False)
                v = defined[api.choice("var" + tag, len(defined))]
                items = seq_items()
                it = items[api.choice("items" + tag, len(items))]
                prog.append("%s.append(%s)" % (v, ", ".join(describe(x) for x in it)))
                nontrivial = True

                def call(it=it, v=v):
                    var[v].append(*it)

                def mcall(it=it, v=v):
                    model.append(var[v], it)
            elif kind == "requires":
                j = jobs[api.choice("job" + tag, 4 if level != "mini" else 2)]
                args = req_args()
                arg = args[api.choice("arg" + tag, len(args))]
                rem = api.flag("remove" + tag)
                two = api.flag("two" + tag) if full_tables else False
                al = (arg, d) if two else (arg,)
                prog.append("%s.requires(%s, remove=%s)" % (j, ", ".join(describe(x) for x in al), rem))

                def call(j=j, al=al, rem=rem):
                    j.requires(*[(x for x in y[1]) if _isgen(y) else y for y in al], remove=rem)

                def mcall(j=j, al=al, rem=rem):
                    model.requires(j, [list(y[1]) if _isgen(y) else y for y in al], rem)
            elif kind == "seqreq":
                defined = [q for q in ("q0", "q1") if var[q] is not None]
                if not defined:
                    api.assume(False)
                v = defined[api.choice("var" + tag, len(defined))]
                args = [None, a, [c, d]] + [var[q] for q in defined]
                arg = args[api.choice("arg" + tag, len(args))]
                prog.append("%s.requires(%s)" % (v, describe(arg)))

                def call(v=v, arg=arg):
                    var[v].requires(arg)

                def mcall(v=v, arg=arg):
                    model.seq_requires(var[v], [arg])
            elif kind == "add":
                xs = [a, d] + [var[q] for q in ("q0", "q1") if var[q] is not None] + [fresh_empty()]
                x = xs[api.choice("x" + tag, len(xs))]
                prog.append("S.add(%s)" % describe(x))

                def call(x=x):
                    S.add(x)

                def mcall(x=x):
                    model.add([x])
            elif kind == "update":
                xs = [[a, b], [], (c, None)] + [[var[q], c] for q in ("q0", "q1") if var[q] is not None]
                x = xs[api.choice("x" + tag, len(xs))]
                prog.append("S.update(%s)" % describe(x))

                def call(x=x):
                    S.update(x)

                def mcall(x=x):
                    model.add(list(x))
            elif kind == "remove":
                j = (a, b)[api.choice("job" + tag, 2)]
                prog.append("S.remove(%s)" % j)

                def call(j=j):
                    S.remove(j)

                def mcall(j=j):
                    model.remove(j)
            elif kind == "newjob":
                rtab = [None, a, [a, b], shared_set] + [var[q] for q in ("q0", "q1") if var[q] is not None]
                r = rtab[api.choice("required" + tag, len(rtab))]
                ins = api.flag("sched" + tag)
                prog.append("e%s = Job(required=%s, scheduler=%s)" % (tag, describe(r), "S" if ins else None))

                def call(r=r, ins=ins, tag=tag):
                    e = GJob("e" + tag, 4 + int(tag), required=r, scheduler=S if ins else None)
                    jobs.append(e)
                    model.req[e] = set()
                    var["_new"] = e

                def mcall(r=r, ins=ins):
                    e = var["_new"]
                    model.requires(e, [r])
                    if ins:
                        model.members.add(e)
            # run: library, then model; compare exceptions and state
            lib_exc = mod_exc = None
            try:
                call()
            except Violation:
                raise
            except Exception as e:
                lib_exc = e
            if kind == "ctor" and lib_exc is not None:
                raise Violation("C19: %s raised %r" % (prog[-1], lib_exc), {"info": info})
            try:
                mcall()
            except KeyError as e:
                mod_exc = e
            if (lib_exc is None) != (mod_exc is None) or (lib_exc is not None and not isinstance(lib_exc, KeyError)):
                raise Violation("C19: %s: the library %s, the documented semantics %s"
                                % (prog[-1], "raised %r" % (lib_exc,) if lib_exc is not None else "did not raise",
                                   "raise KeyError" if mod_exc is not None else "do not raise"), {"info": info})
            compare(model, jobs, S, var, info)
        if nontrivial:
            api.note("nt")
        api.sample(info)

    return Harness(name, fn, bounds={"statements": nstmts, "statement_kinds": kinds, "jobs": 4, "sequence_variables": 2,
                                     "operand_tables": level},
                   free=["statement kind", "operands", "flags"], cut0=6)


def compare(model, jobs, S, var, info):
    for j in list(model.req):
        got = set(j.required)
        if got != model.req[j]:
            raise Violation("C19: after `%s`: %s requires %s, the documented semantics give %s"
                            % (info["program"][-1], j, sorted(map(str, got)), sorted(map(str, model.req[j]))),
                            {"info": info})
    got = list(S.jobs)
    if len(got) != len(set(got)) or set(got) != model.members:
        raise Violation("C19: after `%s`: the scheduler holds %s, the documented semantics give %s"
                        % (info["program"][-1], sorted(map(str, got)), sorted(map(str, model.members))),
                        {"info": info})
    for q in ("q0", "q1"):
        if var[q] is not None:
            want = model.seq(var[q])["jobs"]
            if list(var[q].jobs) != want:
                raise Violation("C19: after `%s`: sequence %s holds %s, expected %s"
                                % (info["program"][-1], q, var[q].jobs, want), {"info": info})


ALL = ["ctor", "append", "requires", "seqreq", "add", "update", "remove", "newjob"]


def harnesses(tier):
    if tier == "quick":
        return [program_harness("two-statements", 2, ALL, "reduced"),
                program_harness("three-statements-core", 3, ["ctor", "append", "requires", "seqreq"], "mini")]
    return [program_harness("two-statements-full", 2, ALL, "full"),
            program_harness("three-statements", 3, ALL, "reduced"),
            program_harness("four-statements-core", 4, ["ctor", "append", "requires"], "mini")]
