"""C03 -- progress: a run that can finish does finish"""
from env.scenario import Profile
from props.common import scenario_harness
from props import oracles as O

TITLE = "progress: failures and windows never wedge a run"
OUTSIDE = ["more than 5 atomic jobs", "jobs that ignore cancellation", "cyclic or non-closed graphs"]
ASSUMPTIONS = ["admissibility (the statement's precondition) is assumed as a z3 formula before the run: every "
               "scheduler without timeout owns a non-forever job; never-ending implies forever; no non-forever job "
               "downstream of a never-ending one; window > number of never-ending jobs"]


def _pre(api, run):
    api.assume(O.admissible(api, run))


def harnesses(tier):
    o = [O.c03_progress]
    if tier == "quick":
        return [
            scenario_harness("flat-raise-window", Profile(
                templates=("F3",), raises="free", crit_job="free", window="free", perm="two", top="pure"),
                o, pre=_pre),
            scenario_harness("flat-never-forever-window-timeout", Profile(
                templates=("F3",), forever="free", never="free", window="free", timeout="free", perm="id",
                crit_job=False, top="pure"), o, pre=_pre),
            scenario_harness("nested-raise-window", Profile(
                templates=("N12",), raises="free", crit_job="free", crit_sched="free", window="free",
                perm="id"), o, pre=_pre),
            scenario_harness("nested-handlers-that-never-return", Profile(
                templates=("N11", "N12"), timeout="always", timeout_scope="top", sd_never="free", sdt="always",
                perm="id", crit_job=False, edges="none"), o, pre=_pre),
            scenario_harness("flat4-orders", Profile(
                templates=("F4",), crit_job=False, perm="two", top="pure"), o, pre=_pre),
        ]
    return [
        scenario_harness("flat4-raise-window", Profile(
            templates=("F4",), raises="free", crit_job="free", window="free", perm="two"), o, pre=_pre),
        scenario_harness("flat3-all", Profile(
            templates=("F3",), forever="free", never="free", window="free", timeout="free", perm="free",
            raises="free", crit_job="free", lat="free"), o, pre=_pre),
        scenario_harness("nested-all", Profile(
            templates=("N12", "N22"), raises="free", crit_job="free", crit_sched="free", window="free",
            forever="free", never="free", timeout="free", timeout_scope="nested", perm="id"), o, pre=_pre),
    ]
