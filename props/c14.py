"""C14 -- job results and life-cycle predicates tell the truth"""
from env.scenario import Profile
from props.common import scenario_harness, edit_before_run
from props import oracles as O

TITLE = "job results and life-cycle predicates tell the truth"
OUTSIDE = ["more than 4 atomic jobs", "sampling between two callbacks of the same loop iteration"]
ASSUMPTIONS = ["predicates are sampled at every quiescent point of the event loop (clock about to advance), at a "
               "deadlock, and after the run"]


def harnesses(tier):
    smp = dict(c12=False, c14=True)
    if tier == "quick":
        return [
            scenario_harness("flat-window-outcomes", Profile(
                templates=("F3",), window="free", raises="free", crit_job="free", perm="id", top="pure",
                kind="free"), [], sampler=smp),
            scenario_harness("flat-timeout-forever", Profile(
                templates=("F3",), timeout="free", forever="free", perm="id", top="pure", crit_job=False,
                kind="corojob", edges="chain"), [], sampler=smp),
            scenario_harness("nested", Profile(
                templates=("N12",), raises="free", crit_job="free", crit_sched="free", perm="id"), [],
                sampler=smp),
            scenario_harness("nested-cancelled-while-tidying", Profile(
                templates=("N12",), forever="free", lat="free", timeout="always", timeout_scope="top", perm="id",
                crit_job=False, edges="none"), [], sampler=smp),
            scenario_harness("inspected-and-edited-before-run", Profile(
                templates=("F3",), window="free", crit_job=False, perm="id", top="pure"), [], sampler=smp,
                pre=edit_before_run),
        ]
    return [
        scenario_harness("flat-window-outcomes", Profile(
            templates=("F4",), window="free", raises="free", crit_job="free", perm="id", kind="free"), [],
            sampler=smp),
        scenario_harness("flat-timeout-forever", Profile(
            templates=("F3",), timeout="free", forever="free", perm="two", crit_job="free", raises="free",
            kind="free", window="free"), [], sampler=smp),
        scenario_harness("nested", Profile(
            templates=("N12", "N22", "D3"), raises="free", crit_job="free", crit_sched="free", perm="id",
            timeout="free", window="free", window_scope="nested"), [], sampler=smp),
    ]
