"""C05 -- critical failure aborts at once"""
from env.scenario import Profile
from props.common import scenario_harness
from props import oracles as O

TITLE = "critical failure aborts at once"
OUTSIDE = ["more than 4 atomic jobs", "jobs that ignore cancellation"]
ASSUMPTIONS = ["'at that same instant' is virtual time: a queued job that receives a slot in the very instant of the "
               "failure and is cancelled in that instant is within the property (DESIGN section 6, C05)"]


def harnesses(tier):
    o = [O.c05_critical_abort]
    req = ("c05_critical_failures", "c05_cancelled_siblings")
    if tier == "quick":
        return [
            scenario_harness("flat-window", Profile(
                templates=("F3",), raises="free", crit_job="free", window="free", perm="two", top="pure"),
                o, required_notes=req + ("c05_queued_siblings",)),
            scenario_harness("flat-yields", Profile(
                templates=("F3",), raises="free", crit_job="free", post=1, perm="id", top="pure", edges="none"),
                o, required_notes=req),
            scenario_harness("flat2-lat-sd", Profile(
                templates=("F2",), raises="free", crit_job="free", lat="free", sd="free", sdt="free",
                perm="id", top="pure", edges="none"), o, required_notes=req),
            scenario_harness("nested", Profile(
                templates=("N12",), raises="free", crit_job="free", crit_sched="free", perm="id"),
                o, required_notes=req),
            scenario_harness("flat3-latencies", Profile(
                templates=("F3",), raises="free", crit_job=True, lat="free", perm="two", top="pure",
                edges="none"), o, required_notes=req),
        ]
    return [
        scenario_harness("flat4-window", Profile(
            templates=("F4",), raises="free", crit_job="free", window="free", perm="two"), o,
            required_notes=req + ("c05_queued_siblings",)),
        scenario_harness("flat3-ties-yields-lat", Profile(
            templates=("F3",), raises="free", crit_job="free", pre=1, post=2, ties=True, lat="free", sd="free",
            sdt="free", perm="id", window="free"), o, required_notes=req),
        scenario_harness("nested", Profile(
            templates=("N12", "N22", "D3"), raises="free", crit_job="free", crit_sched="free", window="free",
            lat="free", perm="id"), o, required_notes=req),
    ]
