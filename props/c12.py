"""C12 -- eager start"""
from env.scenario import Profile
from props.common import scenario_harness, edit_before_run
from props import oracles as O

TITLE = "eager start: eligible jobs start immediately; a free window slot is never wasted"
OUTSIDE = ["more than 5 atomic jobs"]
ASSUMPTIONS = ["the windowed clause is sampled at every quiescent point of the loop (each time the clock is about to "
               "advance) and after the run; while a scheduler is aborting / cleaning up it is not expected to start jobs"]


def harnesses(tier):
    o = [O.c12_unwindowed]
    smp = dict(c12=True, c14=False)
    if tier == "quick":
        return [
            scenario_harness("flat-unwindowed", Profile(
                templates=("F3", "F4"), perm="two", top="pure", crit_job=False), o),
            scenario_harness("flat-windowed", Profile(
                templates=("F3",), window="always", raises="free", crit_job=False, perm="two", top="pure"),
                o, sampler=smp, required_notes=("c12_eligible_waiting",)),
            scenario_harness("flat4-fanout-window-forever", Profile(
                templates=("F4",), window="always", edges="fanout", forever="free", perm="two", top="pure",
                crit_job=False), o + [O.c03_progress], sampler=smp, required_notes=("c12_eligible_waiting",)),
            scenario_harness("flat-window-set-after-construction", Profile(
                templates=("F3",), window="always", window_via="attr", construct="free", crit_job=False,
                perm="id", top="free"), o + [O.c07_window], sampler=smp, required_notes=("c12_eligible_waiting",)),
            scenario_harness("nested", Profile(
                templates=("N12", "E3"), window="free", perm="id", crit_job=False, raises="free"), o, sampler=smp),
            scenario_harness("inspected-and-edited-before-run", Profile(
                templates=("F4",), crit_job=False, perm="id", top="pure"), o, pre=edit_before_run),
        ]
    return [
        scenario_harness("flat-unwindowed", Profile(
            templates=("F4",), perm="free", crit_job=False, raises="free", post=1), o),
        scenario_harness("flat5-chainless", Profile(
            templates=("F5",), perm="id", crit_job=False, edges="none", window="always"), o, sampler=smp,
            required_notes=("c12_eligible_waiting",)),
        scenario_harness("flat-windowed", Profile(
            templates=("F4",), window="always", raises="free", crit_job=False, perm="two"),
            o, sampler=smp, required_notes=("c12_eligible_waiting",)),
        scenario_harness("nested", Profile(
            templates=("N12", "N22"), window="free", perm="two", crit_job=False, raises="free"), o, sampler=smp),
    ]
