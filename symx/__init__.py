from .core import (SInt, SBool, Engine, ConcreteAPI, PathAbort, Violation, STATE,      # noqa
                   explore, run_path, run_concrete, register_cleanup, is_sym,
                   smax, smin, ite, sand, sor, snot, implies, seq_)
