"""symx -- a small z3-backed path explorer for real Python code.

Proxies (SInt / SBool) wrap z3 terms; arithmetic and comparisons build terms and the
*only* place where a path forks is ``SBool.__bool__`` (and ``SInt.__bool__``).  The explorer
re-executes the harness from scratch for every path (replay of a decision prefix, then new
decisions are decided by the solver), depth first.  The same harness runs in *concrete mode*
(plain ints / bools read from a replay file; z3 is not even imported) to confirm every
counterexample against the real code before it is reported.

z3 is imported lazily so that the replay side can run under an interpreter without it.
"""
import gc
import os
import sys
import time as _time

_perf = _time.perf_counter          # captured before anybody stubs the clock

z3 = None                           # set by _need_z3()


def _need_z3():
    global z3
    if z3 is None:
        import z3 as _z3
        z3 = _z3
    return z3


# --------------------------------------------------------------------------- exceptions
class PathAbort(SystemExit):
    """Ends the current path (not a verdict).  Derives from SystemExit so that neither the
    library's ``except Exception`` nor asyncio's Task machinery swallows it."""

    def __init__(self, kind, msg=""):
        super().__init__(kind)
        self.kind = kind
        self.msg = msg


class Violation(Exception):
    """An oracle failed on the current path."""

    def __init__(self, what, detail=None):
        super().__init__(what)
        self.what = what
        self.detail = detail


class _State:
    eng = None          # the Engine (symbolic) or None
    dead = False        # dead mode: proxies answer constants, never call z3
    concrete = None     # the ConcreteAPI when replaying


STATE = _State()


# --------------------------------------------------------------------------- proxies
def _ie(o):
    """z3 integer term of o"""
    if isinstance(o, SInt):
        return o.e
    if isinstance(o, SBool):
        return z3.If(o.e, 1, 0)
    if isinstance(o, bool):
        return z3.IntVal(1 if o else 0)
    if isinstance(o, int):
        return z3.IntVal(o)
    raise PathAbort("unsupported", "integer operand of type %s" % type(o).__name__)


def _be(o):
    """z3 boolean term of o"""
    if isinstance(o, SBool):
        return o.e
    if isinstance(o, SInt):
        return o.e != 0
    if isinstance(o, (bool, int)):
        return z3.BoolVal(bool(o))
    raise PathAbort("unsupported", "boolean operand of type %s" % type(o).__name__)


class SBool:
    __slots__ = ("e",)

    def __init__(self, e):
        self.e = e

    def __bool__(self):
        if STATE.dead or STATE.eng is None:
            return False
        return STATE.eng.branch(self.e)

    def __and__(self, o):
        return SBool(z3.And(self.e, _be(o)))
    __rand__ = __and__

    def __or__(self, o):
        return SBool(z3.Or(self.e, _be(o)))
    __ror__ = __or__

    def __xor__(self, o):
        return SBool(z3.Xor(self.e, _be(o)))
    __rxor__ = __xor__

    def __invert__(self):
        return SBool(z3.Not(self.e))

    def __eq__(self, o):
        if o is None:
            return False
        return SBool(self.e == _be(o))

    def __ne__(self, o):
        if o is None:
            return True
        return SBool(self.e != _be(o))

    __hash__ = object.__hash__

    def __repr__(self):
        return "<symbool>"
    __str__ = __repr__

    def __format__(self, spec):
        return "<symbool>"

    def __index__(self):
        raise PathAbort("unsupported", "SBool.__index__")


class SInt:
    __slots__ = ("e",)

    def __init__(self, e):
        self.e = e

    def __bool__(self):
        if STATE.dead or STATE.eng is None:
            return False
        return STATE.eng.branch(self.e != 0)

    # arithmetic
    def __add__(self, o):
        return SInt(self.e + _ie(o))
    __radd__ = __add__

    def __sub__(self, o):
        return SInt(self.e - _ie(o))

    def __rsub__(self, o):
        return SInt(_ie(o) - self.e)

    def __mul__(self, o):
        if isinstance(o, (SInt, SBool)):
            raise PathAbort("unsupported", "symbolic * symbolic")
        return SInt(self.e * _ie(o))
    __rmul__ = __mul__

    def __neg__(self):
        return SInt(-self.e)

    def __pos__(self):
        return self

    def __abs__(self):
        return SInt(z3.If(self.e >= 0, self.e, -self.e))

    # comparisons
    def __lt__(self, o):
        return SBool(self.e < _ie(o))

    def __le__(self, o):
        return SBool(self.e <= _ie(o))

    def __gt__(self, o):
        return SBool(self.e > _ie(o))

    def __ge__(self, o):
        return SBool(self.e >= _ie(o))

    def __eq__(self, o):
        if o is None or isinstance(o, (str, float)):
            return False
        if not isinstance(o, (SInt, SBool, int)):
            return NotImplemented
        return SBool(self.e == _ie(o))

    def __ne__(self, o):
        if o is None or isinstance(o, (str, float)):
            return True
        if not isinstance(o, (SInt, SBool, int)):
            return NotImplemented
        return SBool(self.e != _ie(o))

    __hash__ = object.__hash__

    def __repr__(self):
        return "<symint>"
    __str__ = __repr__

    def __format__(self, spec):
        return "<symint>"

    def __index__(self):
        raise PathAbort("unsupported", "SInt.__index__")

    def __int__(self):
        raise PathAbort("unsupported", "SInt.__int__")

    def __float__(self):
        raise PathAbort("unsupported", "SInt.__float__")


def is_sym(x):
    return isinstance(x, (SInt, SBool))


# --------------------------------------------------------------------------- combinators
# (non forking; work on plain values too, so that oracles are written once)
def smax(*xs):
    xs = [x for x in xs]
    if not xs:
        raise ValueError("smax of nothing")
    acc = xs[0]
    for x in xs[1:]:
        if is_sym(acc) or is_sym(x):
            a, b = _ie(acc), _ie(x)
            acc = SInt(z3.If(a >= b, a, b))
        else:
            acc = acc if acc >= x else x
    return acc


def smin(*xs):
    acc = xs[0]
    for x in xs[1:]:
        if is_sym(acc) or is_sym(x):
            a, b = _ie(acc), _ie(x)
            acc = SInt(z3.If(a <= b, a, b))
        else:
            acc = acc if acc <= x else x
    return acc


def ite(c, a, b):
    if not is_sym(c):
        return a if c else b
    if isinstance(a, (SBool, bool)) and isinstance(b, (SBool, bool)):
        return SBool(z3.If(_be(c), _be(a), _be(b)))
    return SInt(z3.If(_be(c), _ie(a), _ie(b)))


def sand(*cs):
    if any(is_sym(c) for c in cs):
        return SBool(z3.And(*[_be(c) for c in cs])) if cs else True
    return all(cs)


def sor(*cs):
    if any(is_sym(c) for c in cs):
        return SBool(z3.Or(*[_be(c) for c in cs])) if cs else False
    return any(cs)


def snot(c):
    if is_sym(c):
        return SBool(z3.Not(_be(c)))
    return not c


def implies(a, b):
    if is_sym(a) or is_sym(b):
        return SBool(z3.Implies(_be(a), _be(b)))
    return (not a) or bool(b)


def seq_(a, b):
    """a == b as a (possibly symbolic) boolean, never forking"""
    if is_sym(a) or is_sym(b):
        return SBool(_ie(a) == _ie(b))
    return a == b


# --------------------------------------------------------------------------- engine
class Engine:
    """One instance per explored path."""

    def __init__(self, prefix, cut_depth=None, seed=0):
        _need_z3()
        self.solver = z3.Solver()
        self.prefix = prefix            # list of [taken, other_open, key]
        self.pos = 0
        self.trail = []
        self.cut_depth = cut_depth
        self.seed = seed
        self.decls = {}                 # name -> z3 const, in declaration order
        self.kinds = {}                 # name -> 'int' | 'bool'
        self.queries = 0
        self.solver_s = 0.0
        self.proved = 0
        self.notes = {}
        self.samples = []
        self.nondet = False
        self.decided = {}
        self.last_cex = None
        self.known_reps = {}
        self.lazy = []

    # -- solver access
    def _add(self, e):
        self.lazy.append(e)

    def _flush(self):
        if self.lazy:
            self.solver.add(*self.lazy)
            self.lazy = []

    def _check(self):
        self._flush()
        t0 = _perf()
        r = self.solver.check()
        self.solver_s += _perf() - t0
        self.queries += 1
        if AUDIT["on"]:
            AUDIT["n"] += 1
            if AUDIT["n"] % AUDIT["every"] == 0 and len(AUDIT["items"]) < AUDIT["max"] and r != z3.unknown:
                try:
                    AUDIT["items"].append((self.solver.to_smt2(), "sat" if r == z3.sat else "unsat"))
                except Exception:       # noqa
                    pass
        if r == z3.unknown:
            raise PathAbort("unknown", "z3 answered unknown: %s" % self.solver.reason_unknown())
        return r == z3.sat

    def _check_with(self, expr):
        self._flush()
        self.solver.push()
        try:
            self.solver.add(expr)
            return self._check()
        finally:
            self.solver.pop()

    def branch(self, expr):
        expr = z3.simplify(expr)
        if z3.is_true(expr):
            return True
        if z3.is_false(expr):
            return False
        eid = expr.get_id()
        hit = self.decided.get(eid)
        if hit is not None:
            return hit[0]
        depth = self.pos
        if depth < len(self.prefix):
            ent = self.prefix[depth]
            taken, other = ent[0], ent[1]
            key = ent[2] if len(ent) > 2 else None
            if key is not None and key != _key(expr):
                self.nondet = True
                raise PathAbort("nondeterministic",
                                "branch %d differs between two executions of the same prefix" % depth)
        else:
            if self.cut_depth is not None and depth >= self.cut_depth:
                raise PathAbort("cut")
            first = True
            if self.seed:
                first = ((self.seed * 2654435761 + depth * 40503) >> 7) & 1 == 0
            lit_first = expr if first else z3.Not(expr)
            can_first = self._check_with(lit_first)
            if can_first:
                can_second = self._check_with(z3.Not(lit_first))
                taken, other = first, can_second
            else:
                taken, other = (not first), False
        self.pos += 1
        self.trail.append([taken, other, _key(expr) if depth < 24 else None])
        self._add(expr if taken else z3.Not(expr))
        self.decided[eid] = (taken, expr)       # keeps the ast alive, hence its id unique
        return taken

    # -- API for harnesses
    mode = "sym"

    def int(self, name, lo=None, hi=None):
        if name in self.decls:
            raise RuntimeError("symbol declared twice: " + name)
        v = z3.Int(name)
        self.decls[name] = v
        self.kinds[name] = "int"
        if lo is not None:
            self._add(v >= lo)
        if hi is not None:
            self._add(v <= hi)
        return SInt(v)

    def bool(self, name):
        if name in self.decls:
            raise RuntimeError("symbol declared twice: " + name)
        v = z3.Bool(name)
        self.decls[name] = v
        self.kinds[name] = "bool"
        return SBool(v)

    def _decide_fresh(self, expr):
        """decision on a symbol declared just now: no earlier constraint can mention it, so both sides are
        feasible whenever the path is -- no solver query needed"""
        depth = self.pos
        if depth < len(self.prefix):
            ent = self.prefix[depth]
            taken, other = ent[0], ent[1]
        else:
            if self.cut_depth is not None and depth >= self.cut_depth:
                raise PathAbort("cut")
            taken, other = True, True
            if self.seed and ((self.seed * 2654435761 + depth * 40503) >> 7) & 1:
                taken = False
        self.pos += 1
        self.trail.append([taken, other, None])
        self._add(expr if taken else z3.Not(expr))
        return taken

    def flag(self, name):
        """a fresh boolean decided right away (the harness needs a concrete value)"""
        b = self.bool(name)
        return self._decide_fresh(b.e)

    def choice(self, name, k):
        """a fresh small integer in [0,k) decided right away"""
        if k <= 1:
            return 0
        v = self.int(name, 0, k - 1)
        lo, hi = 0, k - 1
        while lo < hi:                      # binary case split: log2(k) decisions, all sides feasible
            mid = (lo + hi) // 2
            if self._decide_fresh(v.e <= mid):
                hi = mid
            else:
                lo = mid + 1
        return lo

    def assume(self, cond):
        if not is_sym(cond):
            if not cond:
                raise PathAbort("infeasible")
            return
        e = z3.simplify(_be(cond))
        if z3.is_true(e):
            return
        self._add(e)
        if z3.is_false(e) or not self._check():
            raise PathAbort("infeasible")

    def prove(self, cond, what, detail=None):
        """cond must hold on the whole region of the current path"""
        self.proved += 1
        if not is_sym(cond):
            if not cond:
                raise Violation(what, detail)
            return
        e = z3.simplify(_be(cond))
        if z3.is_true(e):
            return
        self._flush()
        self.solver.push()
        self.solver.add(z3.Not(e))
        try:
            bad = self._check()
            if bad:
                self.last_cex = self._values_of(self.solver.model())
        finally:
            self.solver.pop()
        if bad:
            raise Violation(what, detail)

    def possible(self, cond):
        """can cond be true somewhere in the region of this path? (non forking)"""
        if not is_sym(cond):
            return bool(cond)
        e = z3.simplify(_be(cond))
        if z3.is_true(e):
            return True
        if z3.is_false(e):
            return False
        return self._check_with(e)

    def certain(self, cond):
        return not self.possible(snot(cond))

    def note(self, key, n=1):
        self.notes[key] = self.notes.get(key, 0) + n

    def sample(self, obj):
        if len(self.samples) < 2:
            self.samples.append(obj)

    def _values_of(self, m):
        out = {}
        for name, v in self.decls.items():
            val = m.eval(v, model_completion=True)
            if self.kinds[name] == "bool":
                out[name] = bool(z3.is_true(val))
            else:
                out[name] = val.as_long()
        return out

    def model_values(self):
        """a concrete assignment for every declared symbol, inside the current region"""
        if not self._check():
            raise PathAbort("infeasible", "no model for the current path")
        return self._values_of(self.solver.model())

    def take_cex(self):
        """values of the last failed prove (inside its violating sub-region), else any model of the path"""
        v = self.last_cex
        self.last_cex = None
        return v if v is not None else self.model_values()

    def known(self, kid):
        """a violation attributed to a recorded known finding: counted, one representative kept"""
        self.note("known:" + kid)
        if kid not in self.known_reps:
            self.known_reps[kid] = self.take_cex()
        self.last_cex = None

    def path_condition(self, limit=40):
        self._flush()
        return [str(a) for a in self.solver.assertions()[:limit]]


def _key(expr):
    return expr.hash()


class ConcreteAPI:
    """Same interface, plain values (used for replay and for known-finding witnesses)."""
    mode = "concrete"

    def __init__(self, values):
        self.values = dict(values)
        self.notes = {}
        self.samples = []
        self.proved = 0
        self.used = {}

    def int(self, name, lo=None, hi=None):
        v = int(self.values.get(name, lo if lo is not None else 0))
        self.used[name] = v
        return v

    def bool(self, name):
        v = bool(self.values.get(name, False))
        self.used[name] = v
        return v

    flag = bool

    def choice(self, name, k):
        v = int(self.values.get(name, 0))
        self.used[name] = v
        if not 0 <= v < max(k, 1):
            raise PathAbort("infeasible", "choice %s out of range" % name)
        return v

    def assume(self, cond):
        if not cond:
            raise PathAbort("infeasible")

    def prove(self, cond, what, detail=None):
        self.proved += 1
        if not cond:
            raise Violation(what, detail)

    def possible(self, cond):
        return bool(cond)

    def certain(self, cond):
        return bool(cond)

    def note(self, key, n=1):
        self.notes[key] = self.notes.get(key, 0) + n

    def sample(self, obj):
        if len(self.samples) < 2:
            self.samples.append(obj)

    def known(self, kid):
        self.note("known:" + kid)


# --------------------------------------------------------------------------- path / explorer
_cleanups = []          # callables run (in dead mode) after every path


def register_cleanup(fn):
    _cleanups.append(fn)


def _teardown():
    STATE.dead = True
    try:
        for fn in list(_cleanups):
            try:
                fn()
            except BaseException:      # noqa -- cleanup must never mask the path's verdict
                pass
        gc.collect()
    finally:
        STATE.dead = False
        STATE.eng = None


class PathResult:
    __slots__ = ("outcome", "what", "detail", "values", "trail", "kind", "msg")

    def __init__(self, outcome):
        self.outcome = outcome      # 'ok' | 'violation' | 'abort'
        self.what = None
        self.detail = None
        self.values = None
        self.trail = None
        self.kind = None
        self.msg = None


class PathTimeout(PathAbort):
    """the code under test did not come back within PATH_TIMEOUT_S seconds on one path (derives from SystemExit,
    like every PathAbort: the library's own `except Exception` must not swallow it)"""

    def __init__(self, msg):
        PathAbort.__init__(self, "timeout", msg)


PATH_TIMEOUT_S = int(os.environ.get("VERIF_PATH_TIMEOUT", "30"))


def _alarm(signum, frame):
    raise PathTimeout("no answer after %d s on a single path (infinite loop in the code under test?)"
                      % PATH_TIMEOUT_S)


def _arm(seconds):
    import signal
    try:
        signal.signal(signal.SIGALRM, _alarm)
        signal.alarm(seconds)
    except (ValueError, AttributeError):        # not in the main thread / no SIGALRM
        pass


def run_path(harness, eng, allowed=()):
    """Runs the harness once under engine eng; always tears down afterwards."""
    res = PathResult("ok")
    STATE.eng = eng
    STATE.dead = False
    gc.disable()
    _arm(PATH_TIMEOUT_S)
    try:
        try:
            harness(eng)
            if eng.queries == 0 and eng.trail:
                # a path made of decisions on fresh symbols only is feasible by construction (no query was
                # needed); audit that argument with the solver on one such path out of 16
                _fresh[0] += 1
                if _fresh[0] % 16 == 1 and not eng._check():
                    raise PathAbort("infeasible")
        except Violation as v:
            res.outcome = "violation"
            res.what, res.detail = v.what, v.detail
            try:
                res.values = eng.take_cex()
            except BaseException as e:     # noqa
                res.outcome, res.kind, res.msg = "abort", "unknown", "no model: %r" % (e,)
        except PathTimeout as a:
            _arm(0)
            res.outcome = "violation"
            res.what = "does not terminate: " + a.msg
            try:
                res.values = eng.model_values()
            except BaseException as e2:  # noqa
                res.outcome, res.kind, res.msg = "abort", "unknown", "no model: %r" % (e2,)
        except PathAbort as a:
            res.outcome, res.kind, res.msg = "abort", a.kind, a.msg
        except RecursionError as e:
            res.outcome, res.kind, res.msg = "abort", "unsupported", repr(e)
        except Exception as e:              # an exception escaping the library / the harness
            if _is_z3_error(e):
                res.outcome, res.kind, res.msg = "abort", "z3error", repr(e)
            else:
                import traceback
                res.outcome = "violation"
                res.what = "unexpected exception: %s: %s" % (type(e).__name__, e)
                res.detail = traceback.format_exc(limit=12)
                try:
                    res.values = eng.model_values()
                except BaseException as e2:  # noqa
                    res.outcome, res.kind, res.msg = "abort", "unknown", "no model: %r" % (e2,)
    finally:
        _arm(0)
        res.trail = eng.trail
        _teardown()
        gc.enable()
    return res


def _is_z3_error(e):
    return type(e).__name__ in ("Z3Exception", "ArgumentError")


class ExploreStats:
    def __init__(self):
        self.paths = 0
        self.ok = 0
        self.infeasible = 0
        self.cut = 0
        self.inconclusive = {}      # kind -> count
        self.queries = 0
        self.solver_s = 0.0
        self.proved = 0
        self.notes = {}
        self.samples = []
        self.violations = []        # dicts
        self.cut_prefixes = []
        self.exhausted = True
        self.max_depth = 0
        self.wall_s = 0.0
        self.handed_back = 0
        self.audit = []
        self.known = {}             # finding id -> representative values

    def as_dict(self):
        return dict(self.__dict__)


AUDIT = {"on": bool(os.environ.get("VERIF_AUDIT")), "n": 0, "every": 97, "max": 6, "items": []}
_frozen = [False]
_fresh = [0]


def explore(harness, fixed_prefix=(), cut_depth=None, budget_s=None, seed=0,
            stop_on_violation=True, max_violations=1, slice_s=None):
    """Depth-first exploration of every feasible path extending fixed_prefix."""
    st = ExploreStats()
    if not _frozen[0]:
        # everything imported so far is permanent: the per-path gc.collect() only has to look
        # at what the path itself created
        _need_z3()
        gc.collect()
        gc.freeze()
        _frozen[0] = True
    t0 = _perf()
    nfixed = len(fixed_prefix)
    prefix = [list(p) for p in fixed_prefix]
    while True:
        eng = Engine(prefix, cut_depth=cut_depth, seed=seed)
        res = run_path(harness, eng)
        st.paths += 1
        st.queries += eng.queries
        st.solver_s += eng.solver_s
        st.proved += eng.proved
        st.max_depth = max(st.max_depth, len(res.trail))
        for kid, vals in eng.known_reps.items():
            st.known.setdefault(kid, vals)
        if res.outcome == "abort" and str(res.kind).startswith("known:"):
            res.outcome = "ok"
        if res.outcome == "ok":
            st.ok += 1
            for k, v in eng.notes.items():
                st.notes[k] = st.notes.get(k, 0) + (min(v, 1) if k == "nt" else v)
            if eng.samples and len(st.samples) < 2:
                smp = eng.samples[0]
                if isinstance(smp, dict):
                    try:
                        STATE.eng = eng
                        smp = dict(smp, path_condition=eng.path_condition(14),
                                   one_model_of_the_region={k: v for k, v in eng.model_values().items()
                                                            if v not in (0, False)})
                    except BaseException:   # noqa
                        pass
                    finally:
                        STATE.eng = None
                st.samples.append(smp)
        elif res.outcome == "violation":
            st.violations.append({"what": res.what, "detail": res.detail, "values": res.values,
                                  "decisions": [t[0] for t in res.trail]})
            if stop_on_violation and len(st.violations) >= max_violations:
                st.exhausted = False
                break
        else:
            if res.kind == "infeasible":
                st.infeasible += 1
            elif res.kind == "cut":
                st.cut += 1
                st.cut_prefixes.append([list(t) for t in res.trail])
            else:
                st.inconclusive[res.kind] = st.inconclusive.get(res.kind, 0) + 1
                if len(st.samples) < 3:
                    st.samples.append({"inconclusive": res.kind, "msg": str(res.msg)[:300]})
        # next prefix: flip the deepest open decision beyond the fixed part
        trail = res.trail
        while len(trail) > nfixed and not trail[-1][1]:
            trail.pop()
        if len(trail) <= nfixed:
            break
        if slice_s is not None and _perf() - t0 > slice_s:
            # hand the unexplored part of this subtree back to the caller as new shards
            for i in range(nfixed, len(trail)):
                if trail[i][1]:
                    st.cut_prefixes.append([list(x) for x in trail[:i]] + [[not trail[i][0], False, trail[i][2]]])
            st.handed_back = len(st.cut_prefixes)
            break
        last = trail.pop()
        prefix = trail + [[not last[0], False, last[2]]]
        if budget_s is not None and _perf() - t0 > budget_s:
            st.exhausted = False
            st.inconclusive["budget"] = st.inconclusive.get("budget", 0) + 1
            break
    st.wall_s = _perf() - t0
    if AUDIT["items"]:
        st.audit, AUDIT["items"] = list(AUDIT["items"]), []
    return st


def run_concrete(harness, values):
    """Runs the harness with plain values.  Returns (outcome, what, detail, api)."""
    api = ConcreteAPI(values)
    STATE.eng = None
    STATE.concrete = api
    _arm(PATH_TIMEOUT_S)
    try:
        try:
            harness(api)
            return "ok", None, None, api
        except Violation as v:
            return "violation", v.what, v.detail, api
        except PathTimeout as a:
            _arm(0)
            return "violation", "does not terminate: " + a.msg, None, api
        except PathAbort as a:
            return "abort:" + str(a.kind), a.msg, None, api
        except Exception as e:
            import traceback
            return "violation", "unexpected exception: %s: %s" % (type(e).__name__, e), \
                traceback.format_exc(limit=12), api
    finally:
        _arm(0)
        STATE.concrete = None
        for fn in list(_cleanups):
            try:
                fn()
            except BaseException:   # noqa
                pass
